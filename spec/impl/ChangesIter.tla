----------------------------- MODULE ChangesIter -----------------------------
(***************************************************************************)
(* Tier B – the iterators of src/iter.rs.  `ChangesIter` keeps four        *)
(* cursors (old_i, new_i for reading the value, old_index, new_index for   *)
(* reporting) and a tag; one step = one call of `next()`.                  *)
(* `AllChangesIter` chains one ChangesIter per op (`current_iter`, `ops`). *)
(* A change is <<tag, old_index, new_index, value>> (-1 = None).           *)
(***************************************************************************)
EXTENDS Integers, Sequences

CAt(q, i) == q[i + 1]

\* ChangesIter::new(old, new, op), op = <<tag, o, ol, n, nl>>
ItNew(op) == [tag |-> op[1], oe |-> op[2] + op[3], ne |-> op[4] + op[5],
              old_index |-> op[2], new_index |-> op[4], old_i |-> op[2], new_i |-> op[4]]

\* next(): <<new iterator state, emitted change or <<>> >>
ItNext(old, new, it) ==
  LET del == <<[it EXCEPT !.old_i = @ + 1, !.old_index = @ + 1], <<1, it.old_index, -1, CAt(old, it.old_i)>>>>
      ins == <<[it EXCEPT !.new_i = @ + 1, !.new_index = @ + 1], <<2, -1, it.new_index, CAt(new, it.new_i)>>>>
  IN CASE it.tag = 0 ->
            IF it.old_i < it.oe
            THEN <<[it EXCEPT !.old_i = @ + 1, !.old_index = @ + 1, !.new_index = @ + 1],
                   <<0, it.old_index, it.new_index, CAt(old, it.old_i)>>>>
            ELSE <<it, <<>>>>
       [] it.tag = 1 -> IF it.old_i < it.oe THEN del ELSE <<it, <<>>>>
       [] it.tag = 2 -> IF it.new_i < it.ne THEN ins ELSE <<it, <<>>>>
       [] it.tag = 3 -> IF it.old_i < it.oe THEN del ELSE IF it.new_i < it.ne THEN ins ELSE <<it, <<>>>>

\* AllChangesIter: state [ops (remaining), cur (iterator or <<>>)]; one step = one loop iteration of next()
AllInit(ops) == [ops |-> ops, cur |-> <<>>, done |-> FALSE]
AllStep(old, new, a) ==
  IF a.cur # <<>>
  THEN LET r == ItNext(old, new, a.cur) IN
       IF r[2] # <<>> THEN <<[a EXCEPT !.cur = r[1]], r[2]>>
       ELSE <<[a EXCEPT !.cur = <<>>], <<>>>>                          \* current_iter.take()
  ELSE IF a.ops # <<>> THEN <<[a EXCEPT !.cur = ItNew(Head(a.ops)), !.ops = Tail(@)], <<>>>>
  ELSE <<[a EXCEPT !.done = TRUE], <<>>>>
=============================================================================
