-------------------------------- MODULE Udiff --------------------------------
(***************************************************************************)
(* Tier B – unified diff rendering of src/udiff.rs for line diffs:         *)
(* `UnifiedHunkHeader::new` (extents from the first and the last op of a   *)
(* group, i.e. from *carried* indices when the first/last op is a Delete   *)
(* or an Insert), `UnifiedDiffHunkRange`'s Display (len == 1 shorthand,    *)
(* len == 0 starts one line earlier), `UnifiedDiffHunk::to_writer` (tag,   *)
(* line bytes, missing-newline hint) and `UnifiedDiff::to_writer` (file    *)
(* header in front of the first hunk).  Lines are byte sequences.          *)
(***************************************************************************)
EXTENDS Integers, Sequences, SequencesExt, Group, ChangesIter

RECURSIVE Digits(_)
Digits(n) == IF n < 10 THEN <<48 + n>> ELSE Digits(n \div 10) \o <<48 + (n % 10)>>

\* Display for UnifiedDiffHunkRange(start, end)
RangeText(start, end) ==
  LET len == SatSub(end, start) IN
  IF len = 1 THEN Digits(start + 1)
  ELSE Digits(IF len = 0 THEN start ELSE start + 1) \o <<44>> \o Digits(len)

\* "@@ -R +R @@\n" for a group of ops
HeaderLine(ops) ==
  LET f == ops[1] l == ops[Len(ops)] IN
  <<64, 64, 32, 45>> \o RangeText(f[2], l[2] + l[3]) \o <<32, 43>> \o RangeText(f[4], l[4] + l[5]) \o <<32, 64, 64, 10>>

TagByte(t) == CASE t = 0 -> 32 [] t = 1 -> 45 [] t = 2 -> 43
UEndsNl(line) == Len(line) > 0 /\ line[Len(line)] \in {10, 13}
Hint == <<10, 92, 32, 78, 111, 32, 110, 101, 119, 108, 105, 110, 101, 32, 97, 116, 32, 101, 110, 100, 32,
          111, 102, 32, 102, 105, 108, 101>>           \* "\n\ No newline at end of file"

\* all changes of a hunk (AllChangesIter)
HunkChanges(old, new, ops) ==
  LET RECURSIVE Go(_, _)
      Go(a, acc) == IF a.done THEN acc
                    ELSE LET r == AllStep(old, new, a) IN Go(r[1], IF r[2] = <<>> THEN acc ELSE Append(acc, r[2]))
  IN Go(AllInit(ops), <<>>)

\* UnifiedDiffHunk::to_writer for a newline-terminated (line) diff with the hint on
HunkText(old, new, ops) ==
  LET ch == HunkChanges(old, new, ops) IN
  IF ch = <<>> THEN <<>>
  ELSE HeaderLine(ops) \o
       FlattenSeq([i \in 1..Len(ch) |->
          <<TagByte(ch[i][1])>> \o ch[i][4] \o (IF UEndsNl(ch[i][4]) THEN <<>> ELSE Hint \o <<10>>)])

\* UnifiedDiff::to_writer: old/new are sequences of lines, ops the captured ops
Render(old, new, ops, radius, header) ==
  LET groups == SelectSeq(GroupOps(ops, radius), LAMBDA g : g # <<>>)
      body == FlattenSeq([i \in 1..Len(groups) |-> HunkText(old, new, groups[i])])
  IN IF groups = <<>> THEN <<>>
     ELSE (IF header THEN <<45, 45, 45, 32, 97, 10, 43, 43, 43, 32, 98, 10>> ELSE <<>>) \o body
=============================================================================
