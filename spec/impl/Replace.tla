------------------------------ MODULE Replace ------------------------------
(***************************************************************************)
(* Tier B – the `Replace` adapter of src/algorithms/replace.rs: pending    *)
(* del / ins / eq triples, flush_eq, flush_del_ins.  Streams are sequences *)
(* of tuples <<tag, old_index, old_len, new_index, new_len>> with tag      *)
(* 0 = equal, 1 = delete, 2 = insert, 3 = replace, 4 = finish.             *)
(*                                                                         *)
(* Literal transcription, including the fact that an incoming `replace`    *)
(* flushes only the pending equal run, not a pending delete/insert (no     *)
(* algorithm or adapter of the crate sends replace events).                *)
(***************************************************************************)
EXTENDS Integers, Sequences

NONE == <<>>
RInit == [del |-> NONE, ins |-> NONE, eq |-> NONE]

\* flush_eq: emitted calls and new state
FlushEq(r) == IF r.eq = NONE THEN [r |-> r, out |-> <<>>]
              ELSE [r |-> [r EXCEPT !.eq = NONE],
                    out |-> <<<<0, r.eq[1], r.eq[3], r.eq[2], r.eq[3]>>>>]    \* eq = <<old_index, new_index, len>>

\* flush_del_ins;  del = <<old_index, old_len, new_index>>, ins = <<old_index, new_index, new_len>>
FlushDelIns(r) ==
  IF r.del # NONE THEN
     IF r.ins # NONE
     THEN [r |-> [r EXCEPT !.del = NONE, !.ins = NONE],
           out |-> <<<<3, r.del[1], r.del[2], r.ins[2], r.ins[3]>>>>]
     ELSE [r |-> [r EXCEPT !.del = NONE], out |-> <<<<1, r.del[1], r.del[2], r.del[3], 0>>>>]
  ELSE IF r.ins # NONE
       THEN [r |-> [r EXCEPT !.ins = NONE], out |-> <<<<2, r.ins[1], 0, r.ins[2], r.ins[3]>>>>]
  ELSE [r |-> r, out |-> <<>>]

RStep(r, t) ==
  CASE t[1] = 0 ->   \* equal(old_index, new_index, len)
         LET f == FlushDelIns(r) IN
         [r |-> [f.r EXCEPT !.eq = IF f.r.eq # NONE THEN <<f.r.eq[1], f.r.eq[2], f.r.eq[3] + t[3]>>
                                    ELSE <<t[2], t[4], t[3]>>],
          out |-> f.out]
    [] t[1] = 1 ->   \* delete(old_index, old_len, new_index)
         LET f == FlushEq(r) IN
         [r |-> [f.r EXCEPT !.del = IF f.r.del # NONE THEN <<f.r.del[1], f.r.del[2] + t[3], f.r.del[3]>>
                                     ELSE <<t[2], t[3], t[4]>>],
          out |-> f.out]
    [] t[1] = 2 ->   \* insert(old_index, new_index, new_len)
         LET f == FlushEq(r) IN
         [r |-> [f.r EXCEPT !.ins = IF f.r.ins # NONE THEN <<f.r.ins[1], f.r.ins[2], f.r.ins[3] + t[5]>>
                                     ELSE <<t[2], t[4], t[5]>>],
          out |-> f.out]
    [] t[1] = 3 ->   \* replace: flush_eq, then forwarded
         LET f == FlushEq(r) IN [r |-> f.r, out |-> f.out \o <<t>>]
    [] t[1] = 4 ->   \* finish: flush_eq, flush_del_ins, finish
         LET f == FlushEq(r) g == FlushDelIns(f.r) IN
         [r |-> g.r, out |-> f.out \o g.out \o <<t>>]

RECURSIVE RRunFrom(_, _, _, _)
RRunFrom(r, evs, i, acc) ==
  IF i > Len(evs) THEN acc
  ELSE LET x == RStep(r, evs[i]) IN RRunFrom(x.r, evs, i + 1, acc \o x.out)
\* the stream Replace forwards for the input stream evs (which should end in finish)
ReplaceRun(evs) == RRunFrom(RInit, evs, 1, <<>>)
=============================================================================
