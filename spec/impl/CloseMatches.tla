---------------------------- MODULE CloseMatches ----------------------------
(***************************************************************************)
(* Tier B – `get_close_matches` of src/text/mod.rs with the two pre-filters *)
(* of src/text/utils.rs.  Ratios are kept as exact rationals <<num, den>>; *)
(* the f32 arithmetic of the code is exact enough for words of a few dozen *)
(* characters (DESIGN.md C18).  Words are sequences of characters.         *)
(*   upper_seq_ratio(a, b) = 2*min(|a|,|b|) / (|a|+|b|)                    *)
(*   QuickSeqRatio::calc    = 2*matches / (|distinct chars of word| + |b|) *)
(*       (sic: the table size, not |word|, is the first summand)           *)
(*   ratio                  = 2*L / (|a|+|b|), L = LCS length (Myers is    *)
(*                            minimal, C03); 1 when both are empty         *)
(* The heap holds (ratio, Reverse(word)); popping yields decreasing ratio  *)
(* and, among equal ratios, increasing words.                              *)
(***************************************************************************)
EXTENDS Integers, Sequences, FiniteSets, Oracles

Geq(r, c) == r[1] * c[2] >= c[1] * r[2]            \* rationals with positive denominators
Less(r, c) == ~Geq(r, c)

Upper(a, b) == IF Len(a) + Len(b) = 0 THEN <<1, 1>> ELSE <<2 * Mn(Len(a), Len(b)), Len(a) + Len(b)>>

\* QuickSeqRatio::new(word).calc(b)
Quick(word, b) ==
  LET distinct == {word[i] : i \in 1..Len(word)}
      n == Cardinality(distinct) + Len(b)
      step(acc, ch) ==          \* acc = <<avail (sequence of <<char, count>>), matches>>
        LET S == {k \in 1..Len(acc[1]) : acc[1][k][1] = ch}
            x == IF S # {} THEN acc[1][CHOOSE k \in S : TRUE][2] ELSE Count(word, ch)
            av == IF S # {} THEN [k \in 1..Len(acc[1]) |-> IF acc[1][k][1] = ch THEN <<ch, x - 1>> ELSE acc[1][k]]
                  ELSE Append(acc[1], <<ch, x - 1>>)
        IN <<av, IF x > 0 THEN acc[2] + 1 ELSE acc[2]>>
      r == FoldLeft(step, <<<<>>, 0>>, b)
  IN IF n = 0 THEN <<1, 1>> ELSE <<2 * r[2], n>>

Ratio(a, b) == IF Len(a) + Len(b) = 0 THEN <<1, 1>> ELSE <<2 * LcsLen(a, b), Len(a) + Len(b)>>

\* the candidates that get pushed on the heap, in input order
Pushed(word, cands, cutoff) ==
  SelectSeq(cands, LAMBDA c : ~(Less(Upper(word, c), cutoff) \/ Less(Quick(word, c), cutoff))
                              /\ Geq(Ratio(word, c), cutoff))

\* heap order: a pops before b
PopsBefore(word, a, b) ==
  LET ra == Ratio(word, a) rb == Ratio(word, b) IN
  ra[1] * rb[2] > rb[1] * ra[2] \/ (ra[1] * rb[2] = rb[1] * ra[2] /\ a # b /\ LexLeq(a, b))

CloseMatchesModel(word, cands, n, cutoff) ==
  LET h == SortSeq(Pushed(word, cands, cutoff), LAMBDA a, b : PopsBefore(word, a, b))
  IN SubSeq(h, 1, Mn(n, Len(h)))
=============================================================================
