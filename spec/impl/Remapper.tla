------------------------------ MODULE Remapper ------------------------------
(***************************************************************************)
(* Tier B – `SliceRemapper` / `TextDiffRemapper` of src/utils.rs.          *)
(* `SliceRemapper::new(source, slices)` scans the token lengths into a     *)
(* table of byte ranges; `slice(a..b)` takes the start of entry a and the  *)
(* end of entry b-1 and slices the *original* string; `iter_slices(op)`    *)
(* picks old or new by op kind (Equal and Delete from old, Insert from     *)
(* new, Replace both).  Tokens and texts are byte sequences.               *)
(***************************************************************************)
EXTENDS Integers, Sequences, SequencesExt

\* indexes: <<start, end>> per token (scan of lengths)
Indexes(toks) ==
  FoldLeft(LAMBDA acc, t : <<Append(acc[1], <<acc[2], acc[2] + Len(t)>>), acc[2] + Len(t)>>, <<<<>>, 0>>, toks)[1]

\* SliceRemapper::slice(range a..b) -> <<ok, bytes, offset>>
RSlice(source, idx, a, b) ==
  IF a + 1 > Len(idx) \/ b - 1 < 0 \/ b > Len(idx) THEN <<FALSE, <<>>, -1>>       \* get(..)? == None
  ELSE LET s == idx[a + 1][1] e == idx[b][2]
       IN <<TRUE, SubSeq(source, s + 1, e), IF e > s THEN s ELSE -1>>

\* iter_slices(op) as a sequence of <<tag, bytes, offset>>; op = <<tag, o, ol, n, nl>>
RemapOp(oldText, oldIdx, newText, newIdx, op) ==
  LET o == RSlice(oldText, oldIdx, op[2], op[2] + op[3])
      n == RSlice(newText, newIdx, op[4], op[4] + op[5])
  IN CASE op[1] = 0 -> <<<<0, o[2], o[3]>>>>
       [] op[1] = 1 -> <<<<1, o[2], o[3]>>>>
       [] op[1] = 2 -> <<<<2, n[2], n[3]>>>>
       [] op[1] = 3 -> <<<<1, o[2], o[3]>>, <<2, n[2], n[3]>>>>

\* the slice-wise token expansion of an op (DiffOp::iter_slices): <<tag, <<tokens>>>>
TokenSlices(oldToks, newToks, op) ==
  CASE op[1] = 0 -> <<<<0, SubSeq(oldToks, op[2] + 1, op[2] + op[3])>>>>
    [] op[1] = 1 -> <<<<1, SubSeq(oldToks, op[2] + 1, op[2] + op[3])>>>>
    [] op[1] = 2 -> <<<<2, SubSeq(newToks, op[4] + 1, op[4] + op[5])>>>>
    [] op[1] = 3 -> <<<<1, SubSeq(oldToks, op[2] + 1, op[2] + op[3])>>, <<2, SubSeq(newToks, op[4] + 1, op[4] + op[5])>>>>
=============================================================================
