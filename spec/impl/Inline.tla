------------------------------- MODULE Inline -------------------------------
(***************************************************************************)
(* Tier B – `iter_inline_changes` of src/text/inline.rs for one Replace op *)
(* over old lines / new lines, in the build *without* the unicode feature  *)
(* (words = maximal runs of whitespace / non-whitespace; with the feature  *)
(* the word boundaries come from UAX #29 tables, which are not modelled).  *)
(* Lines are sequences of one-byte characters in this model.               *)
(*   MultiLookup::new       words of all lines with (line index, offset)   *)
(*   capture_diff(Patience) on the two word sequences (Patience + Compact  *)
(*                          + Replace models)                              *)
(*   the two ratio gates    upper_seq_ratio on line counts, get_diff_ratio *)
(*                          on the word ops, both against 0.5              *)
(*   get_original_slices    regrouping of a run of words by line           *)
(*   push_values            emphasised slices are split by                 *)
(*                          tokenize_lines_and_newlines, newline runs      *)
(*                          are never emphasised                           *)
(* An inline change is <<tag, old_index, new_index, <<<<emph, bytes>>..>>, *)
(* missing_newline>>.                                                      *)
(***************************************************************************)
EXTENDS Patience, Compact, Replace, Tokenizers, Tokens

AsChars(s) == [i \in 1..Len(s) |-> <<s[i]>>]
WordsOf(line) == Slices(AsChars(line), RunsStr(AsChars(line), IsWs, 1, <<>>))
NlRunsOf(s) == Slices(AsChars(s), RunsStr(AsChars(s), IsNl, 1, <<>>))
IEndsNl(s) == Len(s) > 0 /\ s[Len(s)] \in {10, 13}

\* MultiLookup::new: sequence of <<word, line index (0-based), byte offset in the line>>
Lookup(lines) ==
  FlattenSeq([li \in 1..Len(lines) |->
     LET ws == WordsOf(lines[li])
     IN [k \in 1..Len(ws) |-> <<ws[k], li - 1, Len(FlattenSeq(SubSeq(ws, 1, k - 1)))>>]])

\* the Patience pipeline on two word sequences
RECURSIVE PRunFrom(_, _, _, _)
PRunFrom(x, m, oe, ne) == IF m.done THEN m ELSE PRunFrom(x, PatienceStep(x, m, oe, ne, FALSE, FALSE, FALSE), oe, ne)
SetSeq(S) == SortIdx(CHOOSE f \in [1..Cardinality(S) -> S] : \A i, j \in 1..Cardinality(S) : i # j => f[i] # f[j])
PatienceOps(ow, nw) ==
  LET uo == SetSeq(UniqueIdx(ow, 0, Len(ow)))
      un == SetSeq(UniqueIdx(nw, 0, Len(nw)))
      x == [old |-> ow, new |-> nw, uo |-> uo, un |-> un]
      s == PRunFrom(x, PatienceInit(uo, un, 0, 0), Len(ow), Len(nw)).out
      cleaned == Cleanup(ow, nw, SubSeq(s, 1, Len(s) - 1))
      piped == ReplaceRun(Append(cleaned, <<4, 0, 0, 0, 0>>))
  IN SubSeq(piped, 1, Len(piped) - 1)

\* get_original_slices(idx, len): <<line index, bytes>> groups
OrigSlices(lines, lk, idx, len) ==
  LET step(acc, k) ==       \* acc = <<groups, last>> ; last = <<line, start, length>> or <<>>
        LET e == lk[idx + k] IN
        IF acc[2] = <<>> THEN <<acc[1], <<e[2], e[3], Len(e[1])>>>>
        ELSE IF acc[2][1] = e[2] THEN <<acc[1], <<e[2], acc[2][2], acc[2][3] + Len(e[1])>>>>
        ELSE <<Append(acc[1], <<acc[2][1], SubSeq(lines[acc[2][1] + 1], acc[2][2] + 1, acc[2][2] + acc[2][3])>>),
               <<e[2], e[3], Len(e[1])>>>>
      r == FoldLeft(step, <<<<>>, <<>>>>, [k \in 1..len |-> k])
  IN IF r[2] = <<>> THEN r[1]
     ELSE Append(r[1], <<r[2][1], SubSeq(lines[r[2][1] + 1], r[2][2] + 1, r[2][2] + r[2][3])>>)

\* push_values into v (sequence of value lists, one per line)
PushValues(v, idx, emph, s) ==
  LET w == IF Len(v) >= idx + 1 THEN v ELSE v \o [k \in 1..(idx + 1 - Len(v)) |-> <<>>]
      add == IF emph THEN LET segs == NlRunsOf(s) IN [k \in 1..Len(segs) |-> <<IF IEndsNl(segs[k]) THEN 0 ELSE 1, segs[k]>>]
             ELSE <<<<0, s>>>>
  IN [w EXCEPT ![idx + 1] = @ \o add]
PushAll(v, groups, emph) == FoldLeft(LAMBDA acc, g : PushValues(acc, g[1], emph, g[2]), v, groups)

PlainChanges(oldLines, newLines, o0, n0) ==
  [i \in 1..Len(oldLines) |-> <<1, o0 + i - 1, -1, <<<<0, oldLines[i]>>>>, ~IEndsNl(oldLines[i])>>]
  \o [i \in 1..Len(newLines) |-> <<2, -1, n0 + i - 1, <<<<0, newLines[i]>>>>, ~IEndsNl(newLines[i])>>]

\* iter_inline_changes for Replace{o0, |oldLines|, n0, |newLines|}
InlineReplace(oldLines, newLines, o0, n0) ==
  LET N == Len(oldLines) M == Len(newLines) IN
  IF N + M > 0 /\ 4 * (IF N < M THEN N ELSE M) < N + M THEN PlainChanges(oldLines, newLines, o0, n0)
  ELSE
  LET lo == Lookup(oldLines)
      ln == Lookup(newLines)
      ow == [k \in 1..Len(lo) |-> lo[k][1]]
      nw == [k \in 1..Len(ln) |-> ln[k][1]]
      ops == PatienceOps(ow, nw)
      matches == FoldLeft(LAMBDA a, op : IF op[1] = 0 THEN a + op[3] ELSE a, 0, ops)
      tot == Len(ow) + Len(nw)
  IN IF tot > 0 /\ 4 * matches < tot THEN PlainChanges(oldLines, newLines, o0, n0)
     ELSE
     LET step(acc, op) ==     \* acc = <<old_values, new_values>>
           CASE op[1] = 0 -> <<PushAll(acc[1], OrigSlices(oldLines, lo, op[2], op[3]), FALSE),
                               PushAll(acc[2], OrigSlices(newLines, ln, op[4], op[5]), FALSE)>>
             [] op[1] = 1 -> <<PushAll(acc[1], OrigSlices(oldLines, lo, op[2], op[3]), TRUE), acc[2]>>
             [] op[1] = 2 -> <<acc[1], PushAll(acc[2], OrigSlices(newLines, ln, op[4], op[5]), TRUE)>>
             [] op[1] = 3 -> <<PushAll(acc[1], OrigSlices(oldLines, lo, op[2], op[3]), TRUE),
                               PushAll(acc[2], OrigSlices(newLines, ln, op[4], op[5]), TRUE)>>
         vals == FoldLeft(step, <<<<>>, <<>>>>, ops)
         mn(vs) == IF vs = <<>> THEN FALSE ELSE ~IEndsNl(vs[Len(vs)][2])
     IN [i \in 1..Len(vals[1]) |-> <<1, o0 + i - 1, -1, vals[1][i], mn(vals[1][i])>>]
        \o [i \in 1..Len(vals[2]) |-> <<2, -1, n0 + i - 1, vals[2][i], mn(vals[2][i])>>]
=============================================================================
