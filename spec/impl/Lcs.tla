-------------------------------- MODULE Lcs --------------------------------
(***************************************************************************)
(* Tier B – src/algorithms/lcs.rs (`diff_deadline`, `make_table`) as a     *)
(* task machine over the state record of `Myers` (out, probes, expired,    *)
(* fuel, cmps, xcmps, done, failed) plus the LCS working state `lc`.       *)
(* Tasks:                                                                  *)
(*   l_begin  the empty-range shortcuts, prefix/suffix, identical shortcut *)
(*   l_row    one iteration of the outer loop of make_table: the deadline  *)
(*            probe, then one table row (old_len comparisons)              *)
(*   l_walk   one iteration of the walk over the table (one comparison,    *)
(*            one hook call)                                               *)
(*   l_tail   the tail flush (delete rest, insert rest), the suffix        *)
(*   emit/fin as in Myers                                                  *)
(* The model describes the code *after* the four `fix:` commits (empty     *)
(* ranges, identical sub-ranges, table indexing, deadline fallback).       *)
(***************************************************************************)
EXTENDS Myers

TGet(T, i, j) == IF <<i, j>> \in DOMAIN T THEN T[<<i, j>>] ELSE 0
LMx(a, b) == IF a >= b THEN a ELSE b

LcsInit(os, oe, ns, ne) ==
  [MInit(<<[k |-> "l_begin", os |-> os, oe |-> oe, ns |-> ns, ne |-> ne]>>) EXCEPT
      !.rp = [T |-> <<>>, hasT |-> TRUE, oi |-> 0, ni |-> 0, p |-> 0, s |-> 0,
              os |-> os, oe |-> oe, ns |-> ns, ne |-> ne]]

LBegin(x, m) ==
  LET b == Top(m)
      olen == b.oe - b.os
      nlen == b.ne - b.ns
  IN IF nlen <= 0
     THEN [m EXCEPT !.stack = Push(m, (IF olen > 0 THEN <<Emit(0, TDel(b.os, olen, b.ns))>> ELSE <<>>) \o <<[k |-> "fin"]>>)]
     ELSE IF olen <= 0
     THEN [m EXCEPT !.stack = Push(m, <<Emit(0, TIns(b.os, b.ns, nlen)), [k |-> "fin"]>>)]
     ELSE
     LET p == PrefixC(x, 0, b.os, b.oe, b.ns, b.ne, 0)
         s == SuffixC(x, 0, b.os + p[1], b.oe, b.ns + p[1], b.ne, 0)
         c == p[2] + s[2]
     IN IF p[1] = olen /\ olen = nlen
        THEN [m EXCEPT !.cmps = @ + c, !.stack = Push(m, <<Emit(0, TEq(b.os, b.ns, olen)), [k |-> "fin"]>>)]
        ELSE LET nl == nlen - p[1] - s[1]
                 rows == [r \in 1..nl |-> [k |-> "l_row", i |-> nl - r]]      \* i = new_len-1 .. 0
                 pre == IF p[1] > 0 THEN <<Emit(0, TEq(b.os, b.ns, p[1]))>> ELSE <<>>
             IN [m EXCEPT !.cmps = @ + c,
                          !.rp = [@ EXCEPT !.p = p[1], !.s = s[1]],
                          !.stack = Push(m, rows \o pre \o <<[k |-> "l_walk"]>>)]

\* one row of make_table (after the probe): for j in (0..old_len).rev()
LRow(x, m, probe, exp) ==
  LET lc == m.rp
      i == Top(m).i
      ol == (lc.oe - lc.os) - lc.p - lc.s
      os0 == lc.os + lc.p
      ns0 == lc.ns + lc.p
      m1 == [m EXCEPT !.probes = IF probe THEN @ + 1 ELSE @,
                      !.expired = exp,
                      !.fuel = IF exp /\ ~m.expired THEN m.probes ELSE @,
                      !.xcmps = IF exp /\ ~m.expired THEN m.cmps ELSE @]
  IN IF exp
     THEN \* give up on the table: drop the remaining rows
          [m1 EXCEPT !.rp = [lc EXCEPT !.hasT = FALSE],
                     !.stack = SelectSeq(m.stack, LAMBDA t : t.k # "l_row")]
     ELSE LET RECURSIVE Fill(_, _)
              Fill(j, T) ==
                IF j < 0 THEN T
                ELSE LET v == IF MAt(x.new, ns0 + i) = MAt(x.old, os0 + j)
                              THEN TGet(T, i + 1, j + 1) + 1
                              ELSE LMx(TGet(T, i + 1, j), TGet(T, i, j + 1))
                     IN Fill(j - 1, IF v > 0 THEN [q \in DOMAIN T \cup {<<i, j>>} |-> IF q = <<i, j>> THEN v ELSE T[q]] ELSE T)
          IN [m1 EXCEPT !.rp = [lc EXCEPT !.T = Fill(ol - 1, lc.T)],
                        !.cmps = @ + ol,
                        !.stack = Tail(@)]

\* one iteration of the walk (or, when it is over, the tail)
LWalk(x, m) ==
  LET lc == m.rp
      ol == (lc.oe - lc.os) - lc.p - lc.s
      nl == (lc.ne - lc.ns) - lc.p - lc.s
      oo == lc.os + lc.p + lc.oi
      nn == lc.ns + lc.p + lc.ni
  IN IF lc.hasT /\ lc.ni < nl /\ lc.oi < ol
     THEN IF MAt(x.new, nn) = MAt(x.old, oo)
          THEN [m EXCEPT !.cmps = @ + 1, !.rp = [lc EXCEPT !.oi = @ + 1, !.ni = @ + 1],
                         !.stack = <<Emit(0, TEq(oo, nn, 1))>> \o m.stack]
          ELSE IF TGet(lc.T, lc.ni, lc.oi + 1) >= TGet(lc.T, lc.ni + 1, lc.oi)
          THEN [m EXCEPT !.cmps = @ + 1, !.rp = [lc EXCEPT !.oi = @ + 1],
                         !.stack = <<Emit(0, TDel(oo, 1, nn))>> \o m.stack]
          ELSE [m EXCEPT !.cmps = @ + 1, !.rp = [lc EXCEPT !.ni = @ + 1],
                         !.stack = <<Emit(0, TIns(oo, nn, 1))>> \o m.stack]
     ELSE \* tail flush: delete the rest, then insert the rest, then the suffix, then finish
          LET del == IF lc.oi < ol THEN <<Emit(0, TDel(oo, ol - lc.oi, nn))>> ELSE <<>>
              ins == IF lc.ni < nl THEN <<Emit(0, TIns(lc.os + lc.p + ol, nn, nl - lc.ni))>> ELSE <<>>
              suf == IF lc.s > 0 THEN <<Emit(0, TEq(lc.os + ol + lc.p, lc.ns + nl + lc.p, lc.s))>> ELSE <<>>
          IN [m EXCEPT !.stack = Push(m, del \o ins \o suf \o <<[k |-> "fin"]>>)]

LcsStep(x, m, probe, exp, fail) ==
  CASE MKind(m) = "l_begin" -> LBegin(x, m)
    [] MKind(m) = "l_row" -> LRow(x, m, probe, exp)
    [] MKind(m) = "l_walk" -> LWalk(x, m)
    [] MKind(m) = "emit" -> MUserCall(m, Top(m).t, fail)
    [] MKind(m) = "fin" ->
         IF fail THEN MUserCall(m, TFin, TRUE)
         ELSE [m EXCEPT !.out = Append(@, TFin), !.stack = Tail(@), !.done = TRUE]
=============================================================================
