------------------------------ MODULE Patience ------------------------------
(***************************************************************************)
(* Tier B – src/algorithms/patience.rs on top of the `Myers` machine.      *)
(*                                                                         *)
(*  - `unique()` (utils.rs): the 0-based indices of the items that occur   *)
(*    exactly once in the range.  The code collects them from a HashMap in *)
(*    *arbitrary iteration order* and then sorts by index; the model takes *)
(*    any order `ho` of the index set (chosen nondeterministically by the  *)
(*    MC module – the "schedules" quantifier of C20) and sorts it.         *)
(*  - the outer Myers run over the two unique lists (level 1) feeds        *)
(*    `Replace<Patience>`: only its pending `eq` matters because the       *)
(*    `Patience` hook ignores delete/insert/replace.  A flushed `eq`       *)
(*    becomes one `anchor` task per matched pair = one iteration of the    *)
(*    loop in `Patience::equal`: prefix scan, optional `equal` to the      *)
(*    user, inner Myers run on the gap under `NoFinishHook` (level 0),     *)
(*    `setcur`.  Because `Replace` delays equal runs, outer probes can     *)
(*    precede the inner runs of earlier anchors; all runs share one clock. *)
(*  - `ofin` is the outer `d.finish()`: `Replace::finish` flushes the      *)
(*    pending `eq` (anchors), then `Patience::finish` runs Myers on the    *)
(*    tail, which finishes the user hook (`fin`).                          *)
(*                                                                         *)
(* m.rp = pending Replace.eq as <<o, n, len>> in unique-list coordinates   *)
(* (<<>> = None); m.oc / m.nc = old_current / new_current.                 *)
(* The comparison counter does not include the comparisons the HashMap of  *)
(* `unique()` makes (they depend on the hasher).                           *)
(***************************************************************************)
EXTENDS Myers, TLC

\* the set of 0-based indices in lo..hi-1 whose item occurs exactly once in that range
UniqueIdx(q, lo, hi) ==
  {i \in lo..(hi - 1) : Cardinality({j \in lo..(hi - 1) : MAt(q, j) = MAt(q, i)}) = 1}

\* rv.sort_by_key(original_index) applied to any collection order `ho` of the index set
SortIdx(ho) == SortSeq(ho, <)

PatienceInit(uo, un, os, ns) ==
  [MInit(<<Box(1, 0, Len(uo), 0, Len(un)), [k |-> "ofin"]>>) EXCEPT !.oc = os, !.nc = ns]

Anchors(e) == [i \in 1..e[3] |-> [k |-> "anchor", i |-> e[1] + i - 1, j |-> e[2] + i - 1]]

\* a hook call of the outer run goes into Replace<Patience>
POuterCall(m) ==
  LET t == Top(m).t IN
  IF t[1] = 0                                     \* equal(o, n, len): extend / start the pending eq
  THEN [m EXCEPT !.rp = IF m.rp = <<>> THEN <<t[2], t[4], t[3]>> ELSE <<m.rp[1], m.rp[2], m.rp[3] + t[3]>>,
                 !.stack = Tail(@)]
  ELSE [m EXCEPT !.rp = <<>>,                     \* delete / insert: flush_eq -> Patience::equal
                 !.stack = (IF m.rp = <<>> THEN <<>> ELSE Anchors(m.rp)) \o Tail(m.stack)]

\* one iteration of the loop in Patience::equal
PAnchor(x, m, oe, ne) ==
  LET a == Top(m)
      oi == MAt(x.uo, a.i)
      ni == MAt(x.un, a.j)
      sc == PrefixC(x, 0, m.oc, oi, m.nc, ni, 0)
      k == sc[1]
      pre == IF k > 0 THEN <<Emit(0, TEq(m.oc, m.nc, k))>> ELSE <<>>
  IN [m EXCEPT !.stack = Push(m, pre \o <<Box(0, m.oc + k, oi, m.nc + k, ni), [k |-> "setcur", o |-> oi, n |-> ni]>>),
               !.oc = @ + k, !.nc = @ + k, !.cmps = @ + sc[2]]

PSetCur(m) == [m EXCEPT !.oc = Top(m).o, !.nc = Top(m).n, !.stack = Tail(@)]

\* outer d.finish()
POuterFinish(m, oe, ne) ==
  IF m.rp # <<>> THEN [m EXCEPT !.stack = Anchors(m.rp) \o m.stack, !.rp = <<>>]
  ELSE [m EXCEPT !.stack = Push(m, <<Box(0, m.oc, oe, m.nc, ne), [k |-> "fin"]>>)]

PKind(m) ==
  IF MKind(m) = "emit" /\ Top(m).lv = 1 THEN "outer_emit" ELSE MKind(m)

PatienceStep(x, m, oe, ne, probe, exp, fail) ==
  CASE PKind(m) = "outer_emit" -> POuterCall(m)
    [] PKind(m) = "anchor" -> PAnchor(x, m, oe, ne)
    [] PKind(m) = "setcur" -> PSetCur(m)
    [] PKind(m) = "ofin" -> POuterFinish(m, oe, ne)
    [] OTHER -> MyersStep(x, m, probe, exp, fail)
=============================================================================
