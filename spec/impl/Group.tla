-------------------------------- MODULE Group --------------------------------
(***************************************************************************)
(* Tier B – `group_diff_ops` of src/common.rs as a step machine: the       *)
(* trimming of the first and last Equal op, then one step per iteration of *)
(* `for op in ops`, with the code's saturating arithmetic transcribed.     *)
(* State: [ops, i, pending, rv, n].  Ops are <<tag, o, ol, n, nl>>.        *)
(***************************************************************************)
EXTENDS Integers, Sequences

SatSub(a, b) == IF a >= b THEN a - b ELSE 0
GEqual(o, n, len) == <<0, o, len, n, len>>

\* the two edge trims performed before the loop
TrimEdges(ops, n) ==
  IF ops = <<>> THEN ops
  ELSE
  LET f == ops[1]
      ops1 == IF f[1] = 0
              THEN LET off == SatSub(f[3], n) IN [ops EXCEPT ![1] = GEqual(f[2] + off, f[4] + off, f[3] - off)]
              ELSE ops
      l == ops1[Len(ops1)]
  IN IF l[1] = 0
     THEN [ops1 EXCEPT ![Len(ops1)] = GEqual(l[2], l[4], l[3] - SatSub(l[3], n))]
     ELSE ops1

GInit(ops, n) == [ops |-> TrimEdges(ops, n), i |-> 1, pending |-> <<>>, rv |-> <<>>, n |-> n, done |-> ops = <<>>]

\* one iteration of the loop, or the final push after the loop
GStep(g) ==
  IF g.i > Len(g.ops)
  THEN LET p == g.pending IN
       [g EXCEPT !.done = TRUE,
                 !.rv = IF p = <<>> \/ (Len(p) = 1 /\ p[1][1] = 0) THEN @ ELSE Append(@, p)]
  ELSE LET op == g.ops[g.i] IN
       IF op[1] = 0 /\ op[3] > g.n * 2
       THEN LET off == SatSub(op[3], g.n) IN
            [g EXCEPT !.rv = Append(@, Append(g.pending, GEqual(op[2], op[4], g.n))),
                      !.pending = <<GEqual(op[2] + off, op[4] + off, op[3] - off)>>,
                      !.i = @ + 1]
       ELSE [g EXCEPT !.pending = Append(@, op), !.i = @ + 1]

RECURSIVE GRunFrom(_)
GRunFrom(g) == IF g.done THEN g.rv ELSE GRunFrom(GStep(g))
GroupOps(ops, n) == GRunFrom(GInit(ops, n))
=============================================================================
