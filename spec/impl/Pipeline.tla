------------------------------ MODULE Pipeline ------------------------------
(***************************************************************************)
(* Tier B – `capture_diff` = algorithm -> Compact -> Replace -> Capture,   *)
(* composed from the step machines of `Myers`, `Compact` and `Replace`     *)
(* through their `Run` operators (one source of truth per component; the   *)
(* composed state space stays small because each stage is a function).     *)
(***************************************************************************)
EXTENDS Myers, Compact, Replace

RECURSIVE MyersRunFrom(_, _)
MyersRunFrom(x, m) == IF m.done THEN m ELSE MyersRunFrom(x, MyersStep(x, m, FALSE, FALSE, FALSE))

\* the callback stream of myers::diff on whole sequences (ends with finish)
MyersStream(old, new) ==
  MyersRunFrom([old |-> old, new |-> new, uo |-> <<>>, un |-> <<>>], MyersInit(0, Len(old), 0, Len(new))).out

\* [ops |-> captured ops, swapped |-> a swap arm fired during the clean-up]
CaptureDiff(old, new) ==
  LET s == MyersStream(old, new)
      raw == SubSeq(s, 1, Len(s) - 1)
      c == CRunFrom(old, new, CInit(raw))
      piped == ReplaceRun(Append(c.ops, <<4, 0, 0, 0, 0>>))
  IN [ops |-> SubSeq(piped, 1, Len(piped) - 1), swapped |-> c.swapped]
=============================================================================
