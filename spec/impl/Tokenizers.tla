----------------------------- MODULE Tokenizers -----------------------------
(***************************************************************************)
(* Tier B – the tokenizers of src/text/abstraction.rs for `str` and for    *)
(* `[u8]` (bstr), transcribed over an abstract text = sequence of          *)
(* characters, each a byte sequence (its UTF-8 encoding).  The two shapes  *)
(* differ in how they track byte positions:                                *)
(*   str    char_indices() yields (idx, c); lines use last_pos = idx+1 /   *)
(*          idx+2 and inclusive ranges; words accumulate                   *)
(*          end += c.len_utf8()                                            *)
(*   bytes  char_indices() yields (start, end, c); lines use last_pos =    *)
(*          end / end+1; words take end = new_end                          *)
(* Each scanner returns the byte ranges <<start, end>> (end exclusive) of  *)
(* its tokens.                                                             *)
(***************************************************************************)
EXTENDS Integers, Sequences, SequencesExt, FiniteSets

\* byte offset of character i (1-based), i.e. idx of char_indices
Off(t, i) == LET RECURSIVE S(_) S(k) == IF k = 0 THEN 0 ELSE S(k - 1) + Len(t[k]) IN S(i - 1)
TotalLen(t) == Off(t, Len(t) + 1)
IsCR(c) == c = <<13>>
IsLF(c) == c = <<10>>
IsNlC(c) == IsCR(c) \/ IsLF(c)

\* ---- tokenize_lines, str shape
RECURSIVE LinesStr(_, _, _, _)
LinesStr(t, i, last, acc) ==
  IF i > Len(t) THEN IF last < TotalLen(t) THEN Append(acc, <<last, TotalLen(t)>>) ELSE acc
  ELSE LET idx == Off(t, i) IN
       IF IsCR(t[i]) THEN
          IF i < Len(t) /\ IsLF(t[i + 1])
          THEN LinesStr(t, i + 2, idx + 2, Append(acc, <<last, idx + 2>>))      \* last_pos..=idx+1
          ELSE LinesStr(t, i + 1, idx + 1, Append(acc, <<last, idx + 1>>))      \* last_pos..=idx
       ELSE IF IsLF(t[i]) THEN LinesStr(t, i + 1, idx + 1, Append(acc, <<last, idx + 1>>))
       ELSE LinesStr(t, i + 1, last, acc)

\* ---- tokenize_lines, bytes shape
RECURSIVE LinesBytes(_, _, _, _)
LinesBytes(t, i, last, acc) ==
  IF i > Len(t) THEN IF last < TotalLen(t) THEN Append(acc, <<last, TotalLen(t)>>) ELSE acc
  ELSE LET end == Off(t, i) + Len(t[i]) IN
       IF IsCR(t[i]) THEN
          IF i < Len(t) /\ IsLF(t[i + 1])
          THEN LinesBytes(t, i + 2, end + 1, Append(acc, <<last, end + 1>>))
          ELSE LinesBytes(t, i + 1, end, Append(acc, <<last, end>>))
       ELSE IF IsLF(t[i]) THEN LinesBytes(t, i + 1, end, Append(acc, <<last, end>>))
       ELSE LinesBytes(t, i + 1, last, acc)

\* ---- runs (words: P = whitespace, lines_and_newlines: P = newline)
\* str shape: end accumulated from len_utf8; bytes shape: end taken from the iterator
RECURSIVE RunsStr(_, _, _, _)
RunsStr(t, P(_), i, acc) ==
  IF i > Len(t) THEN acc
  ELSE LET RECURSIVE Ext(_, _)
           Ext(j, end) == IF j <= Len(t) /\ P(t[j]) = P(t[i]) THEN Ext(j + 1, end + Len(t[j])) ELSE <<j, end>>
           r == Ext(i + 1, Off(t, i) + Len(t[i]))
       IN RunsStr(t, P, r[1], Append(acc, <<Off(t, i), r[2]>>))
RECURSIVE RunsBytes(_, _, _, _)
RunsBytes(t, P(_), i, acc) ==
  IF i > Len(t) THEN acc
  ELSE LET RECURSIVE Ext(_, _)
           Ext(j, end) == IF j <= Len(t) /\ P(t[j]) = P(t[i]) THEN Ext(j + 1, Off(t, j) + Len(t[j])) ELSE <<j, end>>
           r == Ext(i + 1, Off(t, i) + Len(t[i]))
       IN RunsBytes(t, P, r[1], Append(acc, <<Off(t, i), r[2]>>))

\* ---- tokenize_chars (both shapes)
CharsRanges(t) == [i \in 1..Len(t) |-> <<Off(t, i), Off(t, i) + Len(t[i])>>]

\* the bytes of the tokens
Bytes(t) == FlattenSeq(t)
Slices(t, ranges) == LET b == Bytes(t) IN [k \in 1..Len(ranges) |-> SubSeq(b, ranges[k][1] + 1, ranges[k][2])]
=============================================================================
