------------------------------ MODULE Identify ------------------------------
(***************************************************************************)
(* Tier B – `IdentifyDistinct::new` of src/algorithms/utils.rs: one shared *)
(* map from items (of either side, compared by value) to integers handed   *)
(* out in first-seen order, the old range first, then the new range; the   *)
(* results are offset lookups that keep the caller's index ranges.         *)
(* One step per item.  State: [map, next, oldIds, newIds, side, i].        *)
(* (The HashMap is only used for lookups, never iterated, so its order is  *)
(* not observable here.)                                                   *)
(***************************************************************************)
EXTENDS Integers, Sequences

IAt(q, i) == q[i + 1]
IdInit == [map |-> <<>>, next |-> 0, oldIds |-> <<>>, newIds |-> <<>>, side |-> "old", i |-> 0, done |-> FALSE]

\* map as a sequence of <<item, id>> pairs
Lookup(map, item) == LET S == {k \in 1..Len(map) : map[k][1] = item} IN
                     IF S = {} THEN -1 ELSE map[CHOOSE k \in S : TRUE][2]

IdStep(old, os, oe, new, ns, ne, st) ==
  IF st.side = "old" /\ os + st.i >= oe THEN [st EXCEPT !.side = "new", !.i = 0]
  ELSE IF st.side = "new" /\ ns + st.i >= ne THEN [st EXCEPT !.done = TRUE]
  ELSE LET item == IF st.side = "old" THEN IAt(old, os + st.i) ELSE IAt(new, ns + st.i)
           found == Lookup(st.map, item)
           id == IF found >= 0 THEN found ELSE st.next
           st1 == IF found >= 0 THEN st
                  ELSE [st EXCEPT !.map = Append(@, <<item, st.next>>), !.next = @ + 1]
       IN IF st.side = "old" THEN [st1 EXCEPT !.oldIds = Append(@, id), !.i = @ + 1]
          ELSE [st1 EXCEPT !.newIds = Append(@, id), !.i = @ + 1]

RECURSIVE IdRunFrom(_, _, _, _, _, _, _)
IdRunFrom(old, os, oe, new, ns, ne, st) ==
  IF st.done THEN st ELSE IdRunFrom(old, os, oe, new, ns, ne, IdStep(old, os, oe, new, ns, ne, st))
=============================================================================
