------------------------------- MODULE Myers -------------------------------
(***************************************************************************)
(* Tier B – src/algorithms/myers.rs (`diff_deadline`, `conquer`,           *)
(* `find_middle_snake`) as a stack machine.  The recursion of `conquer`    *)
(* is a stack of tasks:                                                    *)
(*    box   a (sub)problem: strip and report the common prefix             *)
(*    box2  strip the common suffix, trivial cases, or schedule the search *)
(*    mid   run the middle-snake search on a stripped box                  *)
(*    emit  one hook call (its own step, so that a failing call can be     *)
(*          injected at every call index)                                  *)
(*    fin   the final `d.finish()`                                         *)
(* One `Snake` step = one iteration of the `for d` loop, *beginning with   *)
(* the deadline probe*, so the deadline can expire at every probe.         *)
(*                                                                         *)
(* The machine is written at operator level over a state record so that    *)
(* Patience (which nests Myers runs at two levels) reuses it: every task   *)
(* carries a level `lv`; lv = 0 compares the caller's sequences,           *)
(* lv = 1 compares the two `unique()` lists (x.uo, x.un = 0-based original *)
(* indices).  The context record x = [old, new, uo, un] is constant.       *)
(*                                                                         *)
(* vf / vb are modelled fresh per search with default 0: every entry the   *)
(* code reads was written earlier in the same search (diagonals k+-1 of    *)
(* iteration d-1, resp. the opposite pass of the same/previous iteration), *)
(* so the stale contents the shared vectors carry between searches are     *)
(* never observed.  The exact replay of all behaviours into the code (P3)  *)
(* checks this.                                                            *)
(*                                                                         *)
(* `cmps` counts element comparisons exactly as `common_prefix_len` /      *)
(* `common_suffix_len` perform them (take_while: matches, plus one if a    *)
(* mismatch ended the run).                                                *)
(***************************************************************************)
EXTENDS Integers, Sequences, FiniteSets

MAt(q, i) == q[i + 1]
NOFM == [d |-> -1]

\* element equality at level lv
EqAt(x, lv, i, j) == IF lv = 1 THEN MAt(x.old, MAt(x.uo, i)) = MAt(x.new, MAt(x.un, j))
                     ELSE MAt(x.old, i) = MAt(x.new, j)

\* <<length, comparisons>> of the common prefix / suffix of old[os..oe) and new[ns..ne)
RECURSIVE PrefixC(_, _, _, _, _, _, _)
PrefixC(x, lv, os, oe, ns, ne, acc) ==
  IF os >= oe \/ ns >= ne THEN <<acc, acc>>
  ELSE IF EqAt(x, lv, os, ns) THEN PrefixC(x, lv, os + 1, oe, ns + 1, ne, acc + 1)
  ELSE <<acc, acc + 1>>
RECURSIVE SuffixC(_, _, _, _, _, _, _)
SuffixC(x, lv, os, oe, ns, ne, acc) ==
  IF os >= oe \/ ns >= ne THEN <<acc, acc>>
  ELSE IF EqAt(x, lv, oe - 1, ne - 1) THEN SuffixC(x, lv, os, oe - 1, ns, ne - 1, acc + 1)
  ELSE <<acc, acc + 1>>

MaxD(n, m) == (n + m + 1) \div 2 + 1
MAbs(v) == IF v < 0 THEN -v ELSE v

Box(lv, os, oe, ns, ne) == [k |-> "box", lv |-> lv, os |-> os, oe |-> oe, ns |-> ns, ne |-> ne]
Emit(lv, t) == [k |-> "emit", lv |-> lv, t |-> t]
TEq(o, n, l) == <<0, o, l, n, l>>
TDel(o, l, n) == <<1, o, l, n, 0>>
TIns(o, n, l) == <<2, o, 0, n, l>>
TFin == <<4, 0, 0, 0, 0>>

Get(v, k) == IF k \in DOMAIN v THEN v[k] ELSE 0
Put(v, k, val) == [j \in DOMAIN v \cup {k} |-> IF j = k THEN val ELSE v[j]]

\* ---- conquer(), first half: strip the common prefix and report it (the hook call
\* happens before the suffix is looked at, so a failing call skips those comparisons)
ConquerTasks(x, b) ==
  LET lv == b.lv
      p == PrefixC(x, lv, b.os, b.oe, b.ns, b.ne, 0)
      pre == IF p[1] > 0 THEN <<Emit(lv, TEq(b.os, b.ns, p[1]))>> ELSE <<>>
  IN [tasks |-> pre \o <<[k |-> "box2", lv |-> lv, os |-> b.os + p[1], oe |-> b.oe, ns |-> b.ns + p[1], ne |-> b.ne]>>,
      cmps |-> p[2]]

\* ---- conquer(), second half: strip the common suffix, trivial cases or the search
Conquer2Tasks(x, b) ==
  LET lv == b.lv
      os == b.os
      ns == b.ns
      s == SuffixC(x, lv, os, b.oe, ns, b.ne, 0)
      oe == b.oe - s[1]
      ne == b.ne - s[1]
      suf == IF s[1] > 0 THEN <<Emit(lv, TEq(oe, ne, s[1]))>> ELSE <<>>
      midl == IF os >= oe /\ ns >= ne THEN <<>>
              ELSE IF ns >= ne THEN <<Emit(lv, TDel(os, oe - os, ns))>>
              ELSE IF os >= oe THEN <<Emit(lv, TIns(os, ns, ne - ns))>>
              ELSE <<[k |-> "mid", lv |-> lv, os |-> os, oe |-> oe, ns |-> ns, ne |-> ne]>>
  IN [tasks |-> midl \o suf, cmps |-> s[2]]

\* ---- forward pass of one d iteration over k = d, d-2, .., -d
RECURSIVE Fwd(_, _, _, _, _, _)
Fwd(x, f, k, vf, vb, c) ==
  IF k < -f.d THEN [vf |-> vf, hit |-> FALSE, px |-> 0, py |-> 0, c |-> c]
  ELSE LET n == f.oe - f.os
           m == f.ne - f.ns
           delta == n - m
           odd == delta % 2 = 1
           x0 == IF k = -f.d \/ (k # f.d /\ Get(vf, k - 1) < Get(vf, k + 1))
                 THEN Get(vf, k + 1) ELSE Get(vf, k - 1) + 1
           y0 == x0 - k
           adv == IF x0 < n /\ y0 >= 0 /\ y0 < m
                  THEN PrefixC(x, f.lv, f.os + x0, f.oe, f.ns + y0, f.ne, 0) ELSE <<0, 0>>
           xe == x0 + adv[1]
           vf2 == Put(vf, k, xe)
       IN IF odd /\ MAbs(k - delta) <= f.d - 1 /\ xe + Get(vb, -(k - delta)) >= n
          THEN [vf |-> vf2, hit |-> TRUE, px |-> x0 + f.os, py |-> y0 + f.ns, c |-> c + adv[2]]
          ELSE Fwd(x, f, k - 2, vf2, vb, c + adv[2])

\* ---- backward pass
RECURSIVE Bwd(_, _, _, _, _, _)
Bwd(x, f, k, vf, vb, c) ==
  IF k < -f.d THEN [vb |-> vb, hit |-> FALSE, px |-> 0, py |-> 0, c |-> c]
  ELSE LET n == f.oe - f.os
           m == f.ne - f.ns
           delta == n - m
           odd == delta % 2 = 1
           x0 == IF k = -f.d \/ (k # f.d /\ Get(vb, k - 1) < Get(vb, k + 1))
                 THEN Get(vb, k + 1) ELSE Get(vb, k - 1) + 1
           y0 == x0 - k
           adv == IF x0 < n /\ y0 >= 0 /\ y0 < m
                  THEN SuffixC(x, f.lv, f.os, f.os + n - x0, f.ns, f.ns + m - y0, 0) ELSE <<0, 0>>
           xe == x0 + adv[1]
           ye == y0 + adv[1]
           vb2 == Put(vb, k, xe)
       IN IF ~odd /\ MAbs(k - delta) <= f.d /\ xe + Get(vf, -(k - delta)) >= n
          THEN [vb |-> vb2, hit |-> TRUE, px |-> n - xe + f.os, py |-> m - ye + f.ns, c |-> c + adv[2]]
          ELSE Bwd(x, f, k - 2, vf, vb2, c + adv[2])

\* ---- machine state
MInit(stack) ==
  [stack |-> stack, fm |-> NOFM, out |-> <<>>, expired |-> FALSE, probes |-> 0, fuel |-> -1,
   cmps |-> 0, xcmps |-> -1, done |-> FALSE, failed |-> -1,
   rp |-> <<>>, oc |-> 0, nc |-> 0]

Top(m) == m.stack[1]
Push(m, items) == items \o Tail(m.stack)          \* replace the top task by `items`

MConquer(x, m) ==
  LET r == ConquerTasks(x, Top(m)) IN [m EXCEPT !.stack = Push(m, r.tasks), !.cmps = @ + r.cmps]

MConquer2(x, m) ==
  LET r == Conquer2Tasks(x, Top(m)) IN [m EXCEPT !.stack = Push(m, r.tasks), !.cmps = @ + r.cmps]

MStartSnake(m) ==
  LET b == Top(m) IN
  [m EXCEPT !.fm = [d |-> 0, lv |-> b.lv, os |-> b.os, oe |-> b.oe, ns |-> b.ns, ne |-> b.ne,
                    vf |-> [k \in {1} |-> 0], vb |-> [k \in {1} |-> 0]]]

\* one iteration of the d loop; `probe` = a deadline is present, `exp` = the probe's answer.
\* When the loop has run out (d = d_max) no probe is made and the search gives up.
MSnake(x, m, probe, exp) ==
  LET f == m.fm
      fallback == <<Emit(f.lv, TDel(f.os, f.oe - f.os, f.ns)), Emit(f.lv, TIns(f.oe, f.ns, f.ne - f.ns))>>
  IN IF f.d >= MaxD(f.oe - f.os, f.ne - f.ns)
     THEN [m EXCEPT !.fm = NOFM, !.stack = Push(m, fallback)]
     ELSE
     LET m1 == [m EXCEPT !.probes = IF probe THEN @ + 1 ELSE @,
                         !.expired = exp,
                         !.fuel = IF exp /\ ~m.expired THEN m.probes ELSE @,
                         !.xcmps = IF exp /\ ~m.expired THEN m.cmps ELSE @]
     IN IF exp
        THEN [m1 EXCEPT !.fm = NOFM, !.stack = Push(m, fallback)]
        ELSE LET fw == Fwd(x, f, f.d, f.vf, f.vb, 0) IN
             IF fw.hit
             THEN [m1 EXCEPT !.fm = NOFM, !.cmps = @ + fw.c,
                             !.stack = Push(m, <<Box(f.lv, f.os, fw.px, f.ns, fw.py), Box(f.lv, fw.px, f.oe, fw.py, f.ne)>>)]
             ELSE LET bw == Bwd(x, f, f.d, fw.vf, f.vb, 0) IN
                  IF bw.hit
                  THEN [m1 EXCEPT !.fm = NOFM, !.cmps = @ + fw.c + bw.c,
                                  !.stack = Push(m, <<Box(f.lv, f.os, bw.px, f.ns, bw.py), Box(f.lv, bw.px, f.oe, bw.py, f.ne)>>)]
                  ELSE [m1 EXCEPT !.fm = [f EXCEPT !.d = @ + 1, !.vf = fw.vf, !.vb = bw.vb],
                                  !.cmps = @ + fw.c + bw.c]

\* a hook call of the user-level stream; `fail` = the hook returns an error (models `?`)
MUserCall(m, t, fail) ==
  IF fail THEN [m EXCEPT !.out = Append(@, t), !.failed = Len(m.out), !.stack = <<>>, !.done = TRUE]
  ELSE [m EXCEPT !.out = Append(@, t), !.stack = Tail(@)]

\* kinds of the next step
MKind(m) ==
  IF m.done THEN "done"
  ELSE IF m.fm # NOFM THEN "snake"
  ELSE IF m.stack = <<>> THEN "stuck"
  ELSE Top(m).k

\* the plain Myers algorithm: diff_deadline = conquer + finish
MyersInit(os, oe, ns, ne) == MInit(<<Box(0, os, oe, ns, ne), [k |-> "fin"]>>)

MyersStep(x, m, probe, exp, fail) ==
  CASE MKind(m) = "box" -> MConquer(x, m)
    [] MKind(m) = "box2" -> MConquer2(x, m)
    [] MKind(m) = "mid" -> MStartSnake(m)
    [] MKind(m) = "snake" -> MSnake(x, m, probe, exp)
    [] MKind(m) = "emit" -> MUserCall(m, Top(m).t, fail)
    [] MKind(m) = "fin" ->
         IF fail THEN MUserCall(m, TFin, TRUE)
         ELSE [m EXCEPT !.out = Append(@, TFin), !.stack = Tail(@), !.done = TRUE]
=============================================================================
