------------------------------ MODULE Compact ------------------------------
(***************************************************************************)
(* Tier B – `cleanup_diff_ops` of src/algorithms/compact.rs, transcribed   *)
(* as a step machine: one step per iteration of the `while let` loops of   *)
(* shift_diff_ops_up / shift_diff_ops_down and of the outer scan.          *)
(*                                                                         *)
(* Ops are tuples <<tag, old_index, old_len, new_index, new_len>> (tag 0 = *)
(* Equal, 1 = Delete, 2 = Insert), indices 0-based as in the code.  The    *)
(* machine state is the record                                             *)
(*    [ops, ptr, mode, pass, swapped, arm]                                 *)
(* mode \in {"scan","up","down","done"}, pass 1 = Delete pass, 2 = Insert  *)
(* pass, `arm` = label of the step that produced this state (the labels    *)
(* are those of the cfg(similar_verif) step tracer in the code, so that    *)
(* recorded step sequences can be compared with `CRun`).                   *)
(*                                                                         *)
(* CONSTANT SwapRepair: FALSE is the code as shipped, TRUE is the code     *)
(* with the attribution switch of the swap site on (verif_hooks).          *)
(*                                                                         *)
(* Deliberate literal transcriptions:                                      *)
(*  - in the (Delete, Equal) arms the code computes the common suffix /    *)
(*    prefix against `this_op.new_range()`, which is empty for a Delete:   *)
(*    deletions never slide, and the `len: old_range.len() - suffix_len`   *)
(*    expression of that arm is dead code.  The model has the same effect  *)
(*    because NL(Delete) = 0.                                              *)
(***************************************************************************)
EXTENDS Integers, Sequences, FiniteSets, Ops

CONSTANT SwapRepair

At0(q, i) == q[i + 1]

RECURSIVE CPL(_, _, _, _, _, _)   \* common_prefix_len(old, os..oe, new, ns..ne)
CPL(old, new, os, oe, ns, ne) ==
  IF os >= oe \/ ns >= ne THEN 0
  ELSE IF At0(new, ns) = At0(old, os) THEN 1 + CPL(old, new, os + 1, oe, ns + 1, ne) ELSE 0
RECURSIVE CSL(_, _, _, _, _, _)   \* common_suffix_len
CSL(old, new, os, oe, ns, ne) ==
  IF os >= oe \/ ns >= ne THEN 0
  ELSE IF At0(new, ne - 1) = At0(old, oe - 1) THEN 1 + CSL(old, new, os, oe - 1, ns, ne - 1) ELSE 0

\* ---- DiffOp helpers (types.rs)
MkE(o, n, l) == <<0, o, l, n, l>>
IsEmptyOp(op) == OL(op) = 0 /\ NL(op) = 0
ShiftLeft(op, k) == <<op[1], op[2] - k, op[3], op[4] - k, op[5]>>
ShiftRight(op, k) == <<op[1], op[2] + k, op[3], op[4] + k, op[5]>>
AdjLen(op, d) == CASE op[1] = 0 -> <<0, op[2], op[3] + d, op[4], op[5] + d>>
                   [] op[1] = 1 -> <<1, op[2], op[3] + d, op[4], op[5]>>
                   [] op[1] = 2 -> <<2, op[2], op[3], op[4], op[5] + d>>
                   [] op[1] = 3 -> <<3, op[2], op[3] + d, op[4], op[5] + d>>
GrowLeft(op, k) == AdjLen(ShiftLeft(op, k), k)
GrowRight(op, k) == AdjLen(op, k)
ShrinkLeft(op, k) == AdjLen(op, -k)
ShrinkRight(op, k) == AdjLen(ShiftRight(op, k), -k)

VecRemove(q, i) == SubSeq(q, 1, i) \o SubSeq(q, i + 2, Len(q))               \* Vec::remove(i), 0-based i
VecInsert(q, i, op) == SubSeq(q, 1, i) \o <<op>> \o SubSeq(q, i + 1, Len(q))  \* Vec::insert(i, op)
VecSet(q, i, op) == [q EXCEPT ![i + 1] = op]

\* verif_hooks::repair_swapped(ops, at): at = 0-based index of the first op of the swapped pair
Repair(q, at) ==
  LET a == q[at + 1] b == q[at + 2] IN
  IF ~SwapRepair THEN q
  ELSE IF Tag(a) = 2 /\ Tag(b) = 1
       THEN [q EXCEPT ![at + 1] = <<2, OI(b), 0, NI(a), NL(a)>>,
                      ![at + 2] = <<1, OI(b), OL(b), NI(a) + NL(a), 0>>]
  ELSE IF Tag(a) = 1 /\ Tag(b) = 2
       THEN [q EXCEPT ![at + 1] = <<1, OI(a), OL(a), NI(b), 0>>,
                      ![at + 2] = <<2, OI(a) + OL(a), 0, NI(b), NL(b)>>]
  ELSE q

CInit(ops) == [ops |-> ops, ptr |-> 0, mode |-> "scan", pass |-> 1, swapped |-> FALSE, arm |-> "begin"]

\* ---- the outer loops of cleanup_diff_ops
CScan(c) ==
  IF c.ptr >= Len(c.ops)
  THEN IF c.pass = 1 THEN [c EXCEPT !.pass = 2, !.ptr = 0, !.arm = "pass2"]
       ELSE [c EXCEPT !.mode = "done", !.arm = "end"]
  ELSE IF Tag(At0(c.ops, c.ptr)) = c.pass THEN [c EXCEPT !.mode = "up", !.arm = "scan"]
  ELSE [c EXCEPT !.ptr = @ + 1, !.arm = "scan"]

\* ---- one iteration of shift_diff_ops_up
CUp(old, new, c) ==
  LET ops == c.ops p == c.ptr IN
  IF p = 0 THEN [c EXCEPT !.mode = "down", !.arm = "up_exit"]
  ELSE
  LET this == At0(ops, p) prev == At0(ops, p - 1) IN
  IF Tag(prev) = 0 THEN
    LET k == CSL(old, new, OI(prev), OI(prev) + OL(prev), NI(this), NI(this) + NL(this)) IN
    IF k > 0 THEN
      LET s1 == IF p + 1 < Len(ops) /\ Tag(At0(ops, p + 1)) = 0
                THEN VecSet(ops, p + 1, GrowLeft(At0(ops, p + 1), k))
                ELSE VecInsert(ops, p + 1, MkE(OI(prev) + OL(prev) - k, NI(this) + NL(this) - k, k))
          s2 == VecSet(VecSet(s1, p, ShiftLeft(At0(s1, p), k)), p - 1, ShrinkLeft(At0(s1, p - 1), k))
      IN IF IsEmptyOp(At0(s2, p - 1))
         THEN [c EXCEPT !.ops = VecRemove(s2, p - 1), !.ptr = p - 1, !.arm = "up_slide"]
         ELSE [c EXCEPT !.ops = s2, !.arm = "up_slide"]
    ELSE IF IsEmptyOp(prev)
         THEN [c EXCEPT !.ops = VecRemove(ops, p - 1), !.ptr = p - 1, !.arm = "up_drop"]
    ELSE [c EXCEPT !.mode = "down", !.arm = "up_exit"]                          \* break
  ELSE IF Tag(prev) # Tag(this) THEN                                           \* swap Delete <-> Insert
    [c EXCEPT !.ops = Repair(VecSet(VecSet(ops, p - 1, this), p, prev), p - 1),
              !.ptr = p - 1, !.swapped = TRUE, !.arm = "up_swap"]
  ELSE                                                                         \* merge two of a kind
    [c EXCEPT !.ops = VecRemove(VecSet(ops, p - 1, GrowRight(prev, OL(this) + NL(this))), p),
              !.ptr = p - 1, !.arm = "up_merge"]

\* ---- one iteration of shift_diff_ops_down
CDown(old, new, c) ==
  LET ops == c.ops p == c.ptr IN
  IF p + 1 >= Len(ops) THEN [c EXCEPT !.mode = "scan", !.ptr = p + 1, !.arm = "down_exit"]
  ELSE
  LET this == At0(ops, p) next == At0(ops, p + 1) IN
  IF Tag(next) = 0 THEN
    LET k == CPL(old, new, OI(next), OI(next) + OL(next), NI(this), NI(this) + NL(this)) IN
    IF k > 0 THEN
      LET grow == p >= 1 /\ Tag(At0(ops, p - 1)) = 0
          s1 == IF grow THEN VecSet(ops, p - 1, GrowRight(At0(ops, p - 1), k))
                ELSE VecInsert(ops, p, MkE(OI(next), NI(this), k))
          q == IF grow THEN p ELSE p + 1
          s2 == VecSet(VecSet(s1, q, ShiftRight(At0(s1, q), k)), q + 1, ShrinkRight(At0(s1, q + 1), k))
      IN [c EXCEPT !.ops = IF IsEmptyOp(At0(s2, q + 1)) THEN VecRemove(s2, q + 1) ELSE s2,
                   !.ptr = q, !.arm = "down_slide"]
    ELSE IF IsEmptyOp(next) THEN [c EXCEPT !.ops = VecRemove(ops, p + 1), !.arm = "down_drop"]
    ELSE [c EXCEPT !.mode = "scan", !.ptr = p + 1, !.arm = "down_exit"]          \* break
  ELSE IF Tag(next) # Tag(this) THEN
    [c EXCEPT !.ops = Repair(VecSet(VecSet(ops, p, next), p + 1, this), p),
              !.ptr = p + 1, !.swapped = TRUE, !.arm = "down_swap"]
  ELSE
    [c EXCEPT !.ops = VecRemove(VecSet(ops, p, GrowRight(this, OL(next) + NL(next))), p + 1),
              !.arm = "down_merge"]

CStep(old, new, c) ==
  CASE c.mode = "scan" -> CScan(c)
    [] c.mode = "up" -> CUp(old, new, c)
    [] c.mode = "down" -> CDown(old, new, c)

\* ---- the whole clean-up as a function (stage of Pipeline) and as a step log
RECURSIVE CRunFrom(_, _, _)
CRunFrom(old, new, c) == IF c.mode = "done" THEN c ELSE CRunFrom(old, new, CStep(old, new, c))
Cleanup(old, new, ops) == CRunFrom(old, new, CInit(ops)).ops

\* the steps the code's tracer (cfg(similar_verif) cleanup_step) reports: every step except
\* the silent scan steps, as <<arm, pointer, ops>>.  The tracer reports the pointer of the
\* exits of the down loop and of the two passes *before* the outer loop advances / resets it.
RECURSIVE CLogFrom(_, _, _, _)
CLogFrom(old, new, c, acc) ==
  IF c.mode = "done" THEN acc
  ELSE LET d == CStep(old, new, c)
           p == IF d.arm \in {"down_exit", "pass2", "end"} THEN c.ptr ELSE d.ptr
       IN CLogFrom(old, new, d, IF d.arm = "scan" THEN acc ELSE Append(acc, <<d.arm, p, d.ops>>))
CLog(old, new, ops) == CLogFrom(old, new, CInit(ops), <<<<"begin", 0, ops>>>>)
=============================================================================
