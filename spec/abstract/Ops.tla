-------------------------------- MODULE Ops --------------------------------
(***************************************************************************)
(* Tier A – predicates on captured op lists (properties C02, C03, C09,     *)
(* C11, C15).  An op is a tuple <<tag, old_index, old_len, new_index,      *)
(* new_len>> with tag 0 = Equal, 1 = Delete, 2 = Insert, 3 = Replace       *)
(* (Equal: old_len = new_len = len; Delete: new_len = 0; Insert: old_len   *)
(* = 0).  Indices are the code's 0-based indices.                          *)
(***************************************************************************)
EXTENDS Integers, Sequences, SequencesExt, FiniteSets, Oracles

Tag(op) == op[1]
OI(op) == op[2]
OL(op) == op[3]
NI(op) == op[4]
NL(op) == op[5]
IsEqual(op) == Tag(op) = 0
AtS(q, i) == q[i + 1]

(***************************************************************************)
(* The walk of C02: cursors move over the *primary* ranges (old range of   *)
(* Equal/Delete/Replace, new range of Equal/Insert/Replace).  The result   *)
(* records whether every primary range was exactly the next unconsumed     *)
(* items and Equal ops pair equal items (valid), whether also the carried  *)
(* indices equal the cursors (exact, C11), and what applying the ops to    *)
(* old / inverted to new builds.                                           *)
(***************************************************************************)
WalkStep(old, new, oe, ne, acc, op) ==
    LET t == Tag(op)
        inb == /\ OI(op) >= 0 /\ NI(op) >= 0 /\ OL(op) >= 0 /\ NL(op) >= 0
               /\ (t \in {0, 1, 3} => OI(op) + OL(op) <= oe)
               /\ (t \in {0, 2, 3} => NI(op) + NL(op) <= ne)
        prim == /\ inb
                /\ (t \in {0, 1, 3} => OI(op) = acc.oc)
                /\ (t \in {0, 2, 3} => NI(op) = acc.nc)
                /\ (t = 0 => /\ OL(op) = NL(op)
                             /\ \A i \in 0..(OL(op) - 1) : AtS(old, OI(op) + i) = AtS(new, NI(op) + i))
                /\ (t = 1 => NL(op) = 0)
                /\ (t = 2 => OL(op) = 0)
        ok == acc.valid /\ prim
    IN [valid |-> ok,
        exact |-> acc.exact /\ OI(op) = acc.oc /\ NI(op) = acc.nc,
        oc |-> IF ok THEN acc.oc + OL(op) ELSE acc.oc,
        nc |-> IF ok THEN acc.nc + NL(op) ELSE acc.nc,
        \* apply to old: keep Equal items (taken from old), add inserted items (from new)
        fwd |-> IF ~ok THEN acc.fwd
                ELSE acc.fwd \o (IF t = 0 THEN SubSeq(old, OI(op) + 1, OI(op) + OL(op))
                                 ELSE SubSeq(new, NI(op) + 1, NI(op) + NL(op))),
        \* inverted, apply to new: keep Equal items (taken from new), add deleted items (from old)
        bwd |-> IF ~ok THEN acc.bwd
                ELSE acc.bwd \o (IF t = 0 THEN SubSeq(new, NI(op) + 1, NI(op) + NL(op))
                                 ELSE SubSeq(old, OI(op) + 1, OI(op) + OL(op)))]

Walk(old, new, os, oe, ns, ne, ops) ==
  FoldLeft(LAMBDA acc, op : WalkStep(old, new, oe, ne, acc, op),
           [valid |-> TRUE, exact |-> TRUE, oc |-> os, nc |-> ns, fwd |-> <<>>, bwd |-> <<>>], ops)

ValidOps(old, new, os, oe, ns, ne, ops) ==
  LET w == Walk(old, new, os, oe, ns, ne, ops) IN w.valid /\ w.oc = oe /\ w.nc = ne

ApplyOk(old, new, os, oe, ns, ne, ops) ==
  LET w == Walk(old, new, os, oe, ns, ne, ops)
  IN w.fwd = Slice(new, ns, ne) /\ w.bwd = Slice(old, os, oe)

ExactPositions(old, new, os, oe, ns, ne, ops) == Walk(old, new, os, oe, ns, ne, ops).exact

(* C11 as stated, independent of validity: both indices of every op equal   *)
(* the number of old / new items consumed by all preceding ops plus the     *)
(* range start (purely numeric - the sequences are not consulted).          *)
PositionsExact(os, ns, ops) ==
  FoldLeft(LAMBDA acc, op :
             [ok |-> acc.ok /\ OI(op) = acc.oc /\ NI(op) = acc.nc,
              oc |-> acc.oc + (IF Tag(op) \in {0, 1, 3} THEN OL(op) ELSE 0),
              nc |-> acc.nc + (IF Tag(op) \in {0, 2, 3} THEN NL(op) ELSE 0)],
           [ok |-> TRUE, oc |-> os, nc |-> ns], ops).ok

(* cost and matched totals                                                  *)
Cost(ops) == SumSeq([i \in 1..Len(ops) |-> IF IsEqual(ops[i]) THEN 0 ELSE OL(ops[i]) + NL(ops[i])])
EqualTotal(ops) == SumSeq([i \in 1..Len(ops) |-> IF IsEqual(ops[i]) THEN OL(ops[i]) ELSE 0])
DelTotal(ops) == SumSeq([i \in 1..Len(ops) |-> IF IsEqual(ops[i]) THEN 0 ELSE OL(ops[i])])
InsTotal(ops) == SumSeq([i \in 1..Len(ops) |-> IF IsEqual(ops[i]) THEN 0 ELSE NL(ops[i])])

(***************************************************************************)
(* C09: canonical normal form.                                             *)
(***************************************************************************)
NoEmpty(ops) == \A i \in 1..Len(ops) : OL(ops[i]) + NL(ops[i]) > 0
Alternate(ops) == \A i \in 1..(Len(ops) - 1) : IsEqual(ops[i]) # IsEqual(ops[i + 1])
Latest(old, new, ops) ==
  \A i \in 1..(Len(ops) - 1) :
     (Tag(ops[i]) = 2 /\ Tag(ops[i + 1]) = 0 /\ NL(ops[i]) > 0 /\ OL(ops[i + 1]) > 0)
        => AtS(new, NI(ops[i])) # AtS(old, OI(ops[i + 1]))
NormalForm(old, new, ops) == NoEmpty(ops) /\ Alternate(ops) /\ Latest(old, new, ops)

(***************************************************************************)
(* C15: number of common-unique items that lie inside Equal ops.           *)
(***************************************************************************)
CoveredUnique(old, new, os, oe, ns, ne, ops) ==
  LET U == CommonUnique(Slice(old, os, oe), Slice(new, ns, ne))
  IN SumSeq([i \in 1..Len(ops) |->
        IF IsEqual(ops[i])
        THEN Cardinality({j \in 0..(OL(ops[i]) - 1) :
                 \* inside both ranges, a common unique item, matched to its unique counterpart
                 /\ OI(ops[i]) + j >= os /\ OI(ops[i]) + j < oe /\ NI(ops[i]) + j >= ns /\ NI(ops[i]) + j < ne
                 /\ AtS(old, OI(ops[i]) + j) \in U
                 /\ AtS(new, NI(ops[i]) + j) = AtS(old, OI(ops[i]) + j)})
        ELSE 0])
=============================================================================
