------------------------------ MODULE Expansion -----------------------------
(***************************************************************************)
(* Tier A – expansion of ops into changes and slices (property C13).       *)
(* A change is <<tag, old_index, new_index, value>> with tag 0 = Equal,    *)
(* 1 = Delete, 2 = Insert and -1 for an absent index; an op is             *)
(* <<tag, old_index, old_len, new_index, new_len>>.                        *)
(***************************************************************************)
EXTENDS Integers, Sequences, SequencesExt, FiniteSets

XAt(q, i) == q[i + 1]

Dels(op, old) == [i \in 1..op[3] |-> <<1, op[2] + i - 1, -1, XAt(old, op[2] + i - 1)>>]
Inss(op, new) == [i \in 1..op[5] |-> <<2, -1, op[4] + i - 1, XAt(new, op[4] + i - 1)>>]

ExpectedChanges(op, old, new) ==
  CASE op[1] = 0 -> [i \in 1..op[3] |-> <<0, op[2] + i - 1, op[4] + i - 1, XAt(old, op[2] + i - 1)>>]
    [] op[1] = 1 -> Dels(op, old)
    [] op[1] = 2 -> Inss(op, new)
    [] op[1] = 3 -> Dels(op, old) \o Inss(op, new)

ExpectedSlices(op, old, new) ==
  CASE op[1] = 0 -> <<<<0, SubSeq(old, op[2] + 1, op[2] + op[3])>>>>
    [] op[1] = 1 -> <<<<1, SubSeq(old, op[2] + 1, op[2] + op[3])>>>>
    [] op[1] = 2 -> <<<<2, SubSeq(new, op[4] + 1, op[4] + op[5])>>>>
    [] op[1] = 3 -> <<<<1, SubSeq(old, op[2] + 1, op[2] + op[3])>>, <<2, SubSeq(new, op[4] + 1, op[4] + op[5])>>>>

(* the expansion consumed through other Iterator methods gives the matching  *)
(* part of the same sequence of changes                                     *)
ViaOk(v, exp) ==
  LET n == Len(exp) IN
  CASE v[1] \in {"skip", "nth"} -> v[3] = SubSeq(exp, v[2] + 1, n)
    [] v[1] = "step2" -> v[3] = [i \in 1..((n + 1) \div 2) |-> exp[2 * i - 1]]
    [] v[1] = "count" -> v[2] = n
    [] v[1] = "last" -> v[3] = (IF n = 0 THEN <<>> ELSE <<exp[n]>>)
    [] v[1] = "size_hint" -> v[2] <= n /\ (v[3][1] = -1 \/ v[3][1] >= n)
    [] OTHER -> TRUE

Expand1Viol(r) ==
  IF r.panic THEN {"panic"}
  ELSE (IF r.changes = ExpectedChanges(r.op, r.old, r.new) THEN {} ELSE {"changes"})
       \cup (IF "via" \in DOMAIN r /\ \E k \in 1..Len(r.via) : ~ViaOk(r.via[k], ExpectedChanges(r.op, r.old, r.new))
             THEN {"changes"} ELSE {})
       \cup (IF r.slices = ExpectedSlices(r.op, r.old, r.new) THEN {} ELSE {"slices"})
       \cup (IF r.reapplied = <<r.op>> THEN {} ELSE {"reapply"})
       \* ... also when the capturing hook is handed over by reference
       \cup (IF "reapplied_ref" \in DOMAIN r /\ r.reapplied_ref # <<r.op>> THEN {"reapply"} ELSE {})
       \* ... and through the Replace adapter (ops that consume something on every side they name)
       \cup (IF "reapplied_replace" \in DOMAIN r
                /\ (CASE r.op[1] = 0 -> r.op[3] > 0 [] r.op[1] = 1 -> r.op[3] > 0 [] r.op[1] = 2 -> r.op[5] > 0
                       [] OTHER -> r.op[3] > 0 /\ r.op[5] > 0)
                /\ r.reapplied_replace # <<r.op>>
             THEN {"reapply"} ELSE {})

(* whole-diff iteration = concatenation of the per-op expansions, and each  *)
(* per-op expansion is the expected one                                     *)
ExpandAllViol(r) ==
  IF r.panic THEN {"panic"}
  ELSE (IF r.all = FlattenSeq(r.per_op) THEN {} ELSE {"concat"})
       \cup (IF r.per_op = [i \in 1..Len(r.ops) |-> ExpectedChanges(r.ops[i], r.old, r.new)] THEN {} ELSE {"changes"})
       \cup (IF r.per_op2 = [i \in 1..Len(r.ops2) |-> ExpectedChanges(r.ops2[i], r.old, r.new)] THEN {} ELSE {"changes"})
       \* a whole (unmerged) script re-applied op by op to one capturing hook reproduces every op
       \cup (IF r.recaptured = r.raw THEN {} ELSE {"reapply"})
=============================================================================
