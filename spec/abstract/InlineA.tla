------------------------------- MODULE InlineA -------------------------------
(***************************************************************************)
(* Tier A – inline changes (property C16).  Per op of a line diff the      *)
(* harness logs the plain expansion <<tag, old_index, new_index, line>>    *)
(* and the inline expansion <<tag, old_index, new_index,                   *)
(* <<<<emphasised(0/1), bytes>>, ...>>, missing_newline>>.                 *)
(***************************************************************************)
EXTENDS Integers, Sequences, SequencesExt, FiniteSets

SegBytes(segs) == FlattenSeq([i \in 1..Len(segs) |-> segs[i][2]])
EndsNl(line) == Len(line) > 0 /\ line[Len(line)] \in {10, 13}

InlineOpViol(o) ==
  LET P == o.plain
      I == o.inline
  IN (IF Len(P) = Len(I) /\ \A k \in 1..Len(P) : I[k][1] = P[k][1] /\ I[k][2] = P[k][2] /\ I[k][3] = P[k][3]
      THEN {} ELSE {"tags_indices"})
     \cup (IF Len(P) = Len(I) /\ \A k \in 1..Len(P) : SegBytes(I[k][4]) = P[k][4]
           THEN {} ELSE {"segments"})
     \cup (IF \A k \in 1..Len(I) : \A s \in 1..Len(I[k][4]) :
                I[k][4][s][1] = 1 =>
                   /\ o.tag = 3 /\ I[k][1] \in {1, 2}
                   /\ \A b \in 1..Len(I[k][4][s][2]) : I[k][4][s][2][b] \notin {10, 13}
           THEN {} ELSE {"emphasis"})
     \cup (IF Len(P) = Len(I) /\ \A k \in 1..Len(I) : I[k][5] = ~EndsNl(P[k][4])
           THEN {} ELSE {"missing_newline"})
     \* beyond the listed properties (UTF-8 text): an inline change prints its segments in
     \* order, emphasised ones of a Delete / Insert wrapped in '-' / '+', and a final line feed
     \* when the line lacks one
     \cup (IF "utf8" \in DOMAIN o /\ o.utf8 /\ \E k \in 1..Len(I) : Len(I[k]) >= 6 /\
                LET mark == IF I[k][1] = 1 THEN <<45>> ELSE IF I[k][1] = 2 THEN <<43>> ELSE <<>>
                    segs == [s \in 1..Len(I[k][4]) |->
                               IF I[k][4][s][1] = 1 THEN mark \o I[k][4][s][2] \o mark ELSE I[k][4][s][2]]
                IN I[k][6] # FlattenSeq(segs) \o (IF I[k][5] THEN <<10>> ELSE <<>>)
           THEN {"beyond_inline_display"} ELSE {})

InlineViol(r) ==
  IF r.panic THEN {"panic"}
  ELSE UNION {InlineOpViol(r.per_op[i]) : i \in 1..Len(r.per_op)}
=============================================================================
