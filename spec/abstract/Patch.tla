-------------------------------- MODULE Patch --------------------------------
(***************************************************************************)
(* Tier A – acceptor for rendered unified diffs (property C05): a parser   *)
(* for the format and a strict applier.  Everything is bytes.              *)
(*                                                                         *)
(* The rendered output is split with this specification's own line         *)
(* splitter (LF, CRLF and lone CR end a line: the body is not              *)
(* LF-structured when lines end in CR), then parsed:                       *)
(*   [ "--- a" LF "+++ b" LF ]   only in front of the first hunk           *)
(*   { "@@ -R +R @@" LF  body }                                            *)
(* R = start[,count]; count 1 may be omitted; for count 0 the start is the *)
(* line before the range (GNU convention).  A body line is ' ' / '-' / '+' *)
(* followed by the line's bytes; a line that lacks a terminator is         *)
(* followed by LF and the marker line "\ No newline at end of file".       *)
(***************************************************************************)
EXTENDS Integers, Sequences, SequencesExt, FiniteSets, Tokens

SP == 32
PLUS == 43
MINUS == 45
ATS == 64
COMMA == 44
NoNl == <<92, 32, 78, 111, 32, 110, 101, 119, 108, 105, 110, 101, 32, 97, 116, 32, 101, 110, 100, 32,
          111, 102, 32, 102, 105, 108, 101, 10>>
HdrOld == <<45, 45, 45, 32, 97, 10>>      \* "--- a\n"
HdrNew == <<43, 43, 43, 32, 98, 10>>      \* "+++ b\n"

HasNl(t) == t # <<>> /\ t[Len(t)] \in {LF, CR}
IsDigit(c) == c >= 48 /\ c <= 57

\* "a" or "a,b" -> <<ok, a, b>> ; at least one digit per number, no sign, no spaces
ParseRange(t) ==
  LET step(acc, c) ==            \* acc = <<ok, a, b, afterComma, sawDigit>>
        IF ~acc[1] THEN acc
        ELSE IF IsDigit(c) THEN
               IF acc[4] THEN <<TRUE, acc[2], acc[3] * 10 + (c - 48), TRUE, TRUE>>
               ELSE <<TRUE, acc[2] * 10 + (c - 48), acc[3], FALSE, TRUE>>
        ELSE IF c = COMMA /\ ~acc[4] /\ acc[5] THEN <<TRUE, acc[2], 0, TRUE, FALSE>>
        ELSE <<FALSE, 0, 0, FALSE, FALSE>>
      r == FoldLeft(step, <<TRUE, 0, 0, FALSE, FALSE>>, t)
  IN IF r[1] /\ r[5] THEN <<TRUE, r[2], IF r[4] THEN r[3] ELSE 1>> ELSE <<FALSE, 0, 0>>

FirstIndex(t, c, from) ==
  LET S == {i \in from..Len(t) : t[i] = c}
  IN IF S = {} THEN 0 ELSE CHOOSE i \in S : \A j \in S : i <= j

\* "@@ -R +R @@\n" -> <<ok, a, b, c, d>>
ParseHeader(l) ==
  LET n == Len(l) IN
  IF n < 12 \/ SubSeq(l, 1, 4) # <<ATS, ATS, SP, MINUS>> \/ SubSeq(l, n - 3, n) # <<SP, ATS, ATS, LF>>
  THEN <<FALSE, 0, 0, 0, 0>>
  ELSE LET sp == FirstIndex(l, SP, 5) IN
       IF sp = 0 \/ sp + 1 > n - 4 \/ l[sp + 1] # PLUS THEN <<FALSE, 0, 0, 0, 0>>
       ELSE LET a == ParseRange(SubSeq(l, 5, sp - 1))
                b == ParseRange(SubSeq(l, sp + 2, n - 4))
            IN IF a[1] /\ b[1] THEN <<TRUE, a[2], a[3], b[2], b[3]>> ELSE <<FALSE, 0, 0, 0, 0>>

\* number of leading marks equal to SP
LeadCtx(marks) ==
  LET S == {k \in 1..Len(marks) : marks[k] # SP}
  IN IF S = {} THEN Len(marks) ELSE (CHOOSE k \in S : \A z \in S : k <= z) - 1

(***************************************************************************)
(* Accepts(out, old, new, radius, header): the rendered bytes `out` are a  *)
(* well-formed unified diff that turns `old` into exactly `new`.           *)
(***************************************************************************)
(* (TLC evaluates operator arguments and LET definitions lazily and, for state-level       *)
(* expressions, again at every use; the bounded quantifiers below bind the line lists to    *)
(* evaluated values once.)                                                                  *)
AcceptsLines(L0, O, new, radius, header) ==
  LET hasHdr == header
      hdrOk == hasHdr => (Len(L0) >= 2 /\ L0[1] = HdrOld /\ L0[2] = HdrNew)
  IN hdrOk /\ \E L \in {IF hasHdr /\ Len(L0) >= 2 THEN SubSeq(L0, 3, Len(L0)) ELSE L0} :
  LET RECURSIVE Body(_, _, _, _, _, _, _, _)
      RECURSIVE Hunks(_, _, _, _, _)
      \* i: line index in L; opos: old lines consumed; res: new text so far;
      \* nlines: number of new lines in res; nh: hunks seen
      Hunks(i, opos, res, nlines, nh) ==
        IF i > Len(L)
        THEN nh > 0 /\ res \o FlattenSeq(SubSeq(O, opos + 1, Len(O))) = new
        ELSE LET h == ParseHeader(L[i]) IN
          IF ~h[1] THEN FALSE
          ELSE LET ostart == IF h[3] = 0 THEN h[2] ELSE h[2] - 1
                   nstart == IF h[5] = 0 THEN h[4] ELSE h[4] - 1
               IN IF ostart < opos \/ ostart > Len(O) THEN FALSE
                  ELSE LET skipped == SubSeq(O, opos + 1, ostart)
                       IN /\ nlines + Len(skipped) = nstart            \* true new-side position
                          /\ Body(i + 1, ostart, res \o FlattenSeq(skipped), nlines + Len(skipped),
                                  <<h[3], h[5]>>, <<>>, FALSE, nh)
      \* j: line index; op: old position; r: result; nl: new lines so far;
      \* cnt: <<old lines, new lines>> still expected; marks: body marks; plus: a '+' was seen in this change run
      Body(j, op, r, nl, cnt, marks, plus, nh) ==
        IF j > Len(L) \/ L[j][1] = ATS
        THEN /\ cnt = <<0, 0>>                                          \* header counts = body counts
             /\ \E k \in 1..Len(marks) : marks[k] # SP                  \* the hunk contains a change
             /\ LeadCtx(marks) <= radius /\ LeadCtx(Reverse(marks)) <= radius
             /\ Hunks(j, op, r, nl, nh + 1)
        ELSE LET l == L[j]
                 m == l[1]
                 marked == j < Len(L) /\ L[j + 1] = NoNl
                 tok0 == Tail(l)
                 tok == IF marked /\ tok0 # <<>> THEN SubSeq(tok0, 1, Len(tok0) - 1) ELSE tok0
                 jn == IF marked THEN j + 2 ELSE j + 1
             IN IF marked /\ (tok0 = <<>> \/ tok0[Len(tok0)] # LF \/ HasNl(tok) \/ tok = <<>>) THEN FALSE
                ELSE IF ~marked /\ ~HasNl(tok) THEN FALSE     \* unterminated line without marker
                ELSE IF m = SP
                     THEN /\ op < Len(O) /\ O[op + 1] = tok /\ cnt[1] > 0 /\ cnt[2] > 0
                          /\ Body(jn, op + 1, r \o tok, nl + 1, <<cnt[1] - 1, cnt[2] - 1>>, Append(marks, SP), FALSE, nh)
                ELSE IF m = MINUS
                     THEN /\ ~plus /\ op < Len(O) /\ O[op + 1] = tok /\ cnt[1] > 0
                          /\ Body(jn, op + 1, r, nl, <<cnt[1] - 1, cnt[2]>>, Append(marks, MINUS), FALSE, nh)
                ELSE IF m = PLUS
                     THEN /\ cnt[2] > 0
                          /\ Body(jn, op, r \o tok, nl + 1, <<cnt[1], cnt[2] - 1>>, Append(marks, PLUS), TRUE, nh)
                ELSE FALSE
  IN Hunks(1, 0, <<>>, 0, 0)

Accepts(out, old, new, radius, header) ==
  IF old = new THEN out = <<>>
  ELSE \E L0 \in {SplitLines(out)}, O \in {SplitLines(old)}, nw \in {new} :
          AcceptsLines(L0, O, nw, radius, header)

(* Attribution of known finding KF-2 (hunk header extents taken from the    *)
(* first and last op of the hunk, i.e. from stale carried indices after a  *)
(* compaction swap): a rendering that is rejected as shipped belongs to    *)
(* the finding only if it is byte for byte what that mechanism produces    *)
(* from the recorded ops (`Udiff!Render`, the implementation-shaped model  *)
(* of src/udiff.rs).  Anything else rejected is "not_kf2" - a different    *)
(* defect, even where a swap happened.  Never a verdict by itself.         *)
UD == INSTANCE Udiff
Kf2Shape(r) ==
  r.ops = <<>> \/ r.out_w = UD!Render(SplitLines(r.old), SplitLines(r.new), r.ops, r.radius, r.header)

UdiffViol(r) ==
  IF r.panic THEN {"panic"}
  ELSE (IF r.hint
        THEN LET acc == Accepts(r.out_w, r.old, r.new, r.radius, r.header) IN
             (IF acc THEN {} ELSE {"patch"})
             \cup (IF ~acc /\ ~Kf2Shape(r) THEN {"not_kf2"} ELSE {})
             \cup (IF r.rep_panic \/ ~Accepts(r.out_w_rep, r.old, r.new, r.radius, r.header) THEN {"patch_rep"} ELSE {})
        ELSE {})
       \* the byte writer and Display: identical for UTF-8 input, Display = lossy decoding otherwise
       \cup (IF r.out_d = (IF r.utf8 THEN r.out_w ELSE r.lossy_w) THEN {} ELSE {"writer_display"})
       \* whole-diff writer = file header + the hunks' own writers
       \cup (IF r.out_w = (IF r.header /\ r.hunks_w # <<>> THEN HdrOld \o HdrNew ELSE <<>>) \o r.hunks_w
             THEN {} ELSE {"writer_hunks"})
       \* the same bytes reach a sink that accepts only a few bytes per write call
       \cup (IF "out_w_chunk" \in DOMAIN r /\ r.out_w_chunk # r.out_w THEN {"writer_sink"} ELSE {})

(***************************************************************************)
(* Texts too large to log (tens of millions of lines): the rendering is    *)
(* judged against the op list of the same diff.  Every hunk header parses  *)
(* and its counts equal the marks of its body, the '-' and '+' lines add   *)
(* up to the deleted / inserted totals of the ops, and there is output at  *)
(* all iff some op is not an Equal.                                        *)
(***************************************************************************)
HugeUdiffViol(r) ==
  IF r.panic THEN {"panic"}
  ELSE
  LET dels == FoldLeft(LAMBDA acc, op : acc + (IF op[1] \in {1, 3} THEN op[3] ELSE 0), 0, r.ops)
      inss == FoldLeft(LAMBDA acc, op : acc + (IF op[1] \in {2, 3} THEN op[5] ELSE 0), 0, r.ops)
      L == SplitLines(r.out_w)
      step(acc, l) ==     \* acc = <<ok, minus, plus, expected old, expected new>>
        IF ~acc[1] THEN acc
        ELSE IF l # <<>> /\ l[1] = ATS
             THEN LET h == ParseHeader(l) IN
                  IF h[1] /\ acc[4] = 0 /\ acc[5] = 0 THEN <<TRUE, acc[2], acc[3], h[3], h[5]>> ELSE <<FALSE, 0, 0, 0, 0>>
        ELSE IF l # <<>> /\ l[1] = SP THEN <<acc[4] > 0 /\ acc[5] > 0, acc[2], acc[3], acc[4] - 1, acc[5] - 1>>
        ELSE IF l # <<>> /\ l[1] = MINUS THEN <<acc[4] > 0, acc[2] + 1, acc[3], acc[4] - 1, acc[5]>>
        ELSE IF l # <<>> /\ l[1] = PLUS THEN <<acc[5] > 0, acc[2], acc[3] + 1, acc[4], acc[5] - 1>>
        ELSE <<FALSE, 0, 0, 0, 0>>
      res == FoldLeft(step, <<TRUE, 0, 0, 0, 0>>, L)
  IN IF res[1] /\ res[4] = 0 /\ res[5] = 0 /\ res[2] = dels /\ res[3] = inss
        /\ ((dels + inss = 0) <=> (r.out_w = <<>>))
     THEN {} ELSE {"patch_huge"}
=============================================================================
