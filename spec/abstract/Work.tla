-------------------------------- MODULE Work --------------------------------
(***************************************************************************)
(* Tier A – the two work bounds (C19, C07), as concrete inequalities on    *)
(* the number of element comparisons counted by the harness's counting     *)
(* PartialEq element type.  The constants are justified in DESIGN.md       *)
(* (measured worst ratios 0.79 / 1.25 resp. 1.44 on the repaired tree).    *)
(***************************************************************************)
EXTENDS Integers

WorkK == 4       \* cmps <= WorkK * (N+M+1) * (D+1)
ExpiryK == 4     \* cmps after the first expired probe <= ExpiryK * (N+M+1)

WorkBound(N, M, D, cmps) == cmps <= WorkK * (N + M + 1) * (D + 1)
GapK == 8        \* cmps between two consecutive deadline checks <= GapK * (N+M+1)
GapBound(N, M, gap) == gap <= GapK * (N + M + 1)
AfterExpiryBound(N, M, cmpsAtExpiry, cmpsAtReturn) ==
  cmpsAtReturn - cmpsAtExpiry <= ExpiryK * (N + M + 1)
=============================================================================
