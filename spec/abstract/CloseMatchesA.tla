--------------------------- MODULE CloseMatchesA ---------------------------
(***************************************************************************)
(* Tier A – get_close_matches (property C18).  Words are sequences of code *)
(* points.  The similarity ratio of word w and candidate c is              *)
(* 2*L/(|w|+|c|) with L the length of a longest common subsequence (1 if   *)
(* both are empty); the cutoff is the rational p/q it was built from.      *)
(* All comparisons are integer cross-multiplications.                      *)
(*                                                                         *)
(* The expected result is characterised declaratively as "the first n of   *)
(* the ranking": right length, sorted, drawn from the passing candidates   *)
(* (as a multiset), and no left-out passing candidate ranks strictly       *)
(* before an included one.                                                 *)
(***************************************************************************)
EXTENDS Integers, Sequences, SequencesExt, FiniteSets, Oracles

RNum(w, c) == IF Len(w) + Len(c) = 0 THEN 1 ELSE 2 * LcsLen(w, c)
RDen(w, c) == IF Len(w) + Len(c) = 0 THEN 1 ELSE Len(w) + Len(c)

Passes(w, c, p, q) == RNum(w, c) * q >= p * RDen(w, c)

\* a ranks strictly before b
Before(w, a, b) ==
  LET x == RNum(w, a) * RDen(w, b)
      y == RNum(w, b) * RDen(w, a)
  IN x > y \/ (x = y /\ a # b /\ LexLeq(a, b))

Occ(s, x) == Cardinality({i \in 1..Len(s) : s[i] = x})

\* (the bounded quantifier binds the table of ratios to an evaluated value: TLC would otherwise
\* re-evaluate a LET definition - and with it every LCS - at each use)
CloseMatchJudge(r, R) ==
  LET pass == SelectSeq(r.cands, LAMBDA c : R[c][1] * r.q >= r.p * R[c][2])
      res == r.result
      vals == {pass[i] : i \in 1..Len(pass)}
      Bef(a, b) == LET x == R[a][1] * R[b][2]
                       y == R[b][1] * R[a][2]
                   IN x > y \/ (x = y /\ a # b /\ LexLeq(a, b))
  IN /\ Len(res) = Mn(r.n, Len(pass))
     /\ \A i \in 1..Len(res) : res[i] \in vals /\ Occ(res, res[i]) <= Occ(pass, res[i])
     /\ \A i, j \in 1..Len(res) : i < j => ~Bef(res[j], res[i])
     /\ \A x \in vals : Occ(res, x) < Occ(pass, x) => \A i \in 1..Len(res) : ~Bef(x, res[i])

CloseMatchViol(r) ==
  IF r.panic THEN {"panic"}
  ELSE LET cvals == {r.cands[i] : i \in 1..Len(r.cands)} IN
       IF \E R \in {[c \in cvals |-> <<RNum(r.word, c), RDen(r.word, c)>>]} : CloseMatchJudge(r, R)
       THEN {} ELSE {"closematch"}
=============================================================================
