------------------------------- MODULE Tokens -------------------------------
(***************************************************************************)
(* Tier A – what the tokenizers may return (property C06).  Texts and      *)
(* tokens are sequences of bytes (naturals 0..255).                        *)
(*                                                                         *)
(* A text is viewed as a sequence of *units*: one unit per Unicode scalar  *)
(* value (its UTF-8 encoding) and, in byte strings only, one unit per      *)
(* maximal invalid subpart.  The unit segmentation of the input is logged  *)
(* by the harness (std `Utf8Chunks`); this module does not trust it        *)
(* blindly: the units must concatenate to the input and every unit that    *)
(* claims to be a scalar value must be a well-formed UTF-8 encoding, whose *)
(* code point is decoded here.  Character classes are written out here     *)
(* (Unicode White_Space) independently of `char::is_whitespace`.           *)
(*                                                                         *)
(* The shape clauses determine the tokenization uniquely, so the check is  *)
(* exact without transcribing the scanners.                                *)
(***************************************************************************)
EXTENDS Integers, Sequences, SequencesExt, FiniteSets

LF == 10
CR == 13

IsCont(b) == b >= 128 /\ b <= 191
WellFormed(u) ==
  \/ Len(u) = 1 /\ u[1] < 128
  \/ Len(u) = 2 /\ u[1] >= 194 /\ u[1] <= 223 /\ IsCont(u[2])
  \/ Len(u) = 3 /\ u[1] >= 224 /\ u[1] <= 239 /\ IsCont(u[2]) /\ IsCont(u[3])
        /\ (u[1] = 224 => u[2] >= 160) /\ (u[1] = 237 => u[2] <= 159)
  \/ Len(u) = 4 /\ u[1] >= 240 /\ u[1] <= 244 /\ IsCont(u[2]) /\ IsCont(u[3]) /\ IsCont(u[4])
        /\ (u[1] = 240 => u[2] >= 144) /\ (u[1] = 244 => u[2] <= 143)

\* code point of a well-formed unit; -1 for an invalid subpart
CodePoint(u) ==
  IF ~WellFormed(u) THEN -1
  ELSE CASE Len(u) = 1 -> u[1]
         [] Len(u) = 2 -> (u[1] - 192) * 64 + (u[2] - 128)
         [] Len(u) = 3 -> (u[1] - 224) * 4096 + (u[2] - 128) * 64 + (u[3] - 128)
         [] Len(u) = 4 -> (u[1] - 240) * 262144 + (u[2] - 128) * 4096 + (u[3] - 128) * 64 + (u[4] - 128)

\* Unicode White_Space
WhiteSpace == {9, 10, 11, 12, 13, 32, 133, 160, 5760, 8232, 8233, 8239, 8287, 12288} \cup (8192..8202)
IsWs(u) == CodePoint(u) \in WhiteSpace
IsNl(u) == CodePoint(u) \in {LF, CR}

(* byte offsets at which a unit starts or ends                              *)
Boundaries(units) ==
  LET step(acc, u) == <<acc[1] \cup {acc[2] + Len(u)}, acc[2] + Len(u)>>
  IN FoldLeft(step, <<{0}, 0>>, units)[1]

(* the units of every token, given the unit segmentation of the whole input;*)
(* <<FALSE, ..>> if a token boundary falls inside a unit or tokens are not   *)
(* a partition of the input                                                  *)
TokenUnits(units, tokens) ==
  LET step(acc, t) ==
        \* acc = <<ok, next unit index, result>>
        IF ~acc[1] THEN acc
        ELSE LET take(a, k) == \* a = <<bytes so far, unit idx, units taken>>
                   IF Len(a[1]) >= Len(t) \/ a[2] > Len(units) THEN a
                   ELSE <<a[1] \o units[a[2]], a[2] + 1, Append(a[3], units[a[2]])>>
                 r == FoldLeft(take, <<<<>>, acc[2], <<>>>>, [k \in 1..Len(t) |-> k])
             IN IF r[1] = t THEN <<TRUE, r[2], Append(acc[3], r[3])>> ELSE <<FALSE, acc[2], acc[3]>>
      res == FoldLeft(step, <<TRUE, 1, <<>>>>, tokens)
  IN <<res[1] /\ res[2] = Len(units) + 1, res[3]>>

AllSame(us, P(_)) == (\A i \in 1..Len(us) : P(us[i])) \/ (\A i \in 1..Len(us) : ~P(us[i]))

\* ---------------------------------------------------------------- shapes
Lossless(input, tokens) == FlattenSeq(tokens) = input /\ \A i \in 1..Len(tokens) : tokens[i] # <<>>

(* lines: no line break inside except one terminator (LF, CRLF, lone CR) at  *)
(* the end; only the last token may lack it; a token ending in a lone CR is  *)
(* not followed by a token starting with LF (that would be one CRLF)         *)
LineTokenOk(us, isLast, nextStartsWithLF) ==
  LET n == Len(us)
      endsLF == n >= 1 /\ CodePoint(us[n]) = LF
      endsCR == n >= 1 /\ CodePoint(us[n]) = CR
      termLen == IF endsLF THEN (IF n >= 2 /\ CodePoint(us[n - 1]) = CR THEN 2 ELSE 1)
                 ELSE IF endsCR THEN 1 ELSE 0
  IN /\ n >= 1
     /\ \A i \in 1..(n - termLen) : ~IsNl(us[i])
     /\ (termLen = 0 => isLast)
     /\ (endsCR => ~nextStartsWithLF)
LinesShape(tu) ==
  \A i \in 1..Len(tu) :
     LineTokenOk(tu[i], i = Len(tu),
                 i < Len(tu) /\ Len(tu[i + 1]) >= 1 /\ CodePoint(tu[i + 1][1]) = LF)

(* maximal runs of units that agree on P                                     *)
RunsShape(tu, P(_)) ==
  /\ \A i \in 1..Len(tu) : Len(tu[i]) >= 1 /\ AllSame(tu[i], P)
  /\ \A i \in 1..(Len(tu) - 1) : P(tu[i][1]) # P(tu[i + 1][1])

CharsShape(tu) == \A i \in 1..Len(tu) : Len(tu[i]) = 1

TokensViol(r) ==
  IF r.panic THEN {"panic"}
  ELSE
  LET unitsOk == FlattenSeq(r.units) = r.input
                 /\ \A i \in 1..Len(r.units) : r.units[i] # <<>> /\ (r.valid[i] => WellFormed(r.units[i]))
      tu == TokenUnits(r.units, r.tokens)
  IN IF ~unitsOk THEN {"harness_units"}
     ELSE (IF Lossless(r.input, r.tokens) THEN {} ELSE {"lossless"})
          \* beyond the listed properties: is_empty, len, ends_with_newline (last byte LF or CR),
          \* as_str (Some iff the input is valid UTF-8), to_string_lossy / as_bytes on UTF-8 input
          \cup (IF "acc" \in DOMAIN r /\ Len(r.acc) = 6 /\
                   LET n == Len(r.input)
                       utf8 == \A i \in 1..Len(r.valid) : r.valid[i]
                   IN \/ r.acc[1] # (n = 0) \/ r.acc[2] # n
                      \/ r.acc[3] # (n > 0 /\ r.input[n] \in {LF, CR})
                      \/ r.acc[4] # utf8 \/ (utf8 /\ ~r.acc[5]) \/ ~r.acc[6]
                THEN {"beyond_accessors"} ELSE {})
          \cup (IF r.kind \in {"uwords", "graphemes"} \/ ~Lossless(r.input, r.tokens) THEN {}
                ELSE IF ~tu[1] THEN {"shape"}
                ELSE CASE r.kind = "lines" -> IF LinesShape(tu[2]) THEN {} ELSE {"shape"}
                       [] r.kind = "lines_nl" -> IF RunsShape(tu[2], IsNl) THEN {} ELSE {"shape"}
                       [] r.kind = "words" -> IF RunsShape(tu[2], IsWs) THEN {} ELSE {"shape"}
                       [] r.kind = "chars" -> IF CharsShape(tu[2]) THEN {} ELSE {"shape"})

(* independent line splitter used by the unified-diff acceptor (Patch)       *)
SplitLines(s) ==
  LET n == Len(s)
      step(acc, i) ==   \* acc = <<lines, current, skipNext>>
        IF acc[3] THEN <<acc[1], acc[2], FALSE>>
        ELSE LET c == s[i] cur == Append(acc[2], c) IN
          IF c = LF THEN <<Append(acc[1], cur), <<>>, FALSE>>
          ELSE IF c = CR THEN
                 IF i < n /\ s[i + 1] = LF THEN <<Append(acc[1], Append(cur, LF)), <<>>, TRUE>>
                 ELSE <<Append(acc[1], cur), <<>>, FALSE>>
          ELSE <<acc[1], cur, FALSE>>
      r == FoldLeft(step, <<<<>>, <<>>, FALSE>>, [i \in 1..n |-> i])
  IN IF r[2] = <<>> THEN r[1] ELSE Append(r[1], r[2])
=============================================================================
