------------------------------ MODULE Builder ------------------------------
(***************************************************************************)
(* Specification of the two builder objects of the text API as state       *)
(* machines over *histories of calls* (the quantifier the unit tests do    *)
(* not have: any sequence of setter calls, in any order, repeated):        *)
(*                                                                         *)
(*  TextDiffConfig: algorithm(a), deadline(..), timeout(..),               *)
(*     newline_terminated(b), then diff_lines / diff_words / diff_chars /  *)
(*     diff_slices.  Last writer wins for every setting; `deadline` and    *)
(*     `timeout` overwrite each other; the resulting diff reports the      *)
(*     configured algorithm, is newline-terminated iff overridden so or    *)
(*     (not overridden and a line diff), consults the deadline iff one is  *)
(*     configured, and its ops are those of the algorithm-level call.      *)
(*                                                                         *)
(*  UnifiedDiff: context_radius(n), header(a, b), missing_newline_hint(b)  *)
(*     in any order; the rendering is the one determined by the last       *)
(*     value of each setting (judged by the Patch acceptor with exactly    *)
(*     those values).                                                      *)
(***************************************************************************)
EXTENDS Integers, Sequences, Patch

CfgInit == [alg |-> "myers", nlt |-> -1, dl |-> FALSE]
CfgCall(c, name, arg) ==
  CASE name = "algorithm" -> [c EXCEPT !.alg = arg]
    [] name = "newline_terminated" -> [c EXCEPT !.nlt = arg]
    [] name \in {"deadline", "timeout"} -> [c EXCEPT !.dl = TRUE]

\* what diff_<kind> must report for configuration c; r = the recorded observation
DiffViol(c, r) ==
  (IF r.alg = c.alg THEN {} ELSE {"builder_algorithm"})
  \cup (IF r.nlt = (IF c.nlt = -1 THEN r.kind = "lines" ELSE c.nlt = 1) THEN {} ELSE {"builder_newline"})
  \cup (IF c.dl THEN (IF r.ops = r.ref_fuel0 /\ (r.ref_probed => r.probed) THEN {} ELSE {"builder_deadline"})
        ELSE (IF r.ops = r.ref_none /\ ~r.probed THEN {} ELSE {"builder_deadline"}))

UInit == [radius |-> 3, header |-> FALSE, hint |-> TRUE]
UCall(u, name, arg) ==
  CASE name = "context_radius" -> [u EXCEPT !.radius = arg]
    [] name = "header" -> [u EXCEPT !.header = TRUE]
    [] name = "missing_newline_hint" -> [u EXCEPT !.hint = (arg = 1)]

RenderViol(u, r) ==
  IF ~u.hint THEN {}          \* without the marker the output cannot be applied strictly
  ELSE IF Accepts(r.out, r.old, r.new, u.radius, u.header) THEN {} ELSE {"builder_render"}
=============================================================================
