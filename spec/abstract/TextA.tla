-------------------------------- MODULE TextA --------------------------------
(***************************************************************************)
(* Tier A – text diffs (properties C04, C14).  Texts and token values are  *)
(* byte sequences; a change is <<tag, old_index, new_index, value>> with   *)
(* tag 0 = Equal, 1 = Delete, 2 = Insert and -1 for an absent index.       *)
(***************************************************************************)
EXTENDS Integers, Sequences, SequencesExt, FiniteSets

Values(cs) == FlattenSeq([i \in 1..Len(cs) |-> cs[i][4]])

(* C04: both inputs are reconstructed byte for byte; index shape; indices   *)
(* count tokens consecutively from zero on each side; the two ways of       *)
(* iterating (whole diff, op by op) agree.                                  *)
TextChangesViol(r) ==
  IF r.panic THEN {"panic"}
  ELSE
  LET ch == r.all
      nonIns == SelectSeq(ch, LAMBDA c : c[1] # 2)
      nonDel == SelectSeq(ch, LAMBDA c : c[1] # 1)
  IN (IF Values(nonIns) = r.old THEN {} ELSE {"recon_old"})
     \cup (IF Values(nonDel) = r.new THEN {} ELSE {"recon_new"})
     \cup (IF \A i \in 1..Len(ch) :
                CASE ch[i][1] = 0 -> ch[i][2] >= 0 /\ ch[i][3] >= 0
                  [] ch[i][1] = 1 -> ch[i][2] >= 0 /\ ch[i][3] = -1
                  [] ch[i][1] = 2 -> ch[i][2] = -1 /\ ch[i][3] >= 0
           THEN {} ELSE {"index_shape"})
     \cup (IF (\A i \in 1..Len(nonIns) : nonIns[i][2] = i - 1)
              /\ (\A i \in 1..Len(nonDel) : nonDel[i][3] = i - 1)
              /\ Len(nonIns) = r.ntok_old /\ Len(nonDel) = r.ntok_new
           THEN {} ELSE {"index_seq"})
     \cup (IF r.all = r.per_op THEN {} ELSE {"iter_agree"})
     \* beyond the listed properties: what a change shows.  The missing-newline flag is "the
     \* value does not end in LF or CR"; for UTF-8 text the lossy string is the value and Display
     \* is the value plus a line feed when the flag is set; the tag prints as ' ', '-' or '+'.
     \cup (IF "shown" \in DOMAIN r /\ Len(r.shown) = Len(ch)
              /\ \E i \in 1..Len(ch) :
                    LET v == ch[i][4]
                        sh == r.shown[i]
                        miss == ~(v # <<>> /\ v[Len(v)] \in {10, 13})
                    IN \/ sh[3] # miss
                       \/ sh[4] # <<(CASE ch[i][1] = 0 -> 32 [] ch[i][1] = 1 -> 45 [] OTHER -> 43)>>
                       \/ (r.utf8 /\ (sh[2] # v \/ sh[1] # v \o (IF miss THEN <<10>> ELSE <<>>)))
                       \/ (sh[1] # sh[2] \o (IF miss THEN <<10>> ELSE <<>>))
           THEN {"beyond_display"} ELSE {})
     \cup (IF "shown" \in DOMAIN r /\ Len(r.shown) # Len(ch) THEN {"beyond_display"} ELSE {})

(* C04 at token granularity (inputs too large to log byte by byte): tokens are numbered by  *)
(* the harness's own dictionary, equal numbers = equal token texts.                          *)
TextChangesTokViol(r) ==
  IF r.panic THEN {"panic"}
  ELSE
  LET ch == r.all
      nonIns == SelectSeq(ch, LAMBDA c : c[1] # 2)
      nonDel == SelectSeq(ch, LAMBDA c : c[1] # 1)
  IN (IF [i \in 1..Len(nonIns) |-> nonIns[i][4]] = r.old_tok THEN {} ELSE {"recon_old"})
     \cup (IF [i \in 1..Len(nonDel) |-> nonDel[i][4]] = r.new_tok THEN {} ELSE {"recon_new"})
     \cup (IF (\A i \in 1..Len(nonIns) : nonIns[i][2] = i - 1) /\ (\A i \in 1..Len(nonDel) : nonDel[i][3] = i - 1)
           THEN {} ELSE {"index_seq"})

(* C14: the ops of a text diff are the ops of diffing its token slices      *)
(* directly with the same algorithm; reported algorithm and newline flag.   *)
TextOpsViol(r) ==
  IF r.panic THEN {"panic"}
  ELSE (IF r.text_ops = r.slice_ops THEN {} ELSE {"ops_differ"})
       \cup (IF r.reported_alg = r.alg THEN {} ELSE {"algorithm"})
       \cup (IF r.newline_terminated = (IF r.override = -1 THEN r.kind = "lines" ELSE r.override = 1)
             THEN {} ELSE {"newline_flag"})

(* C14: IdentifyDistinct – ids equal exactly when the items are equal,      *)
(* within and across the sides; ranges preserved.                           *)
IdentifyViol(r) ==
  IF r.panic THEN {"panic"}
  ELSE
  LET no == r.oe - r.os
      nn == r.ne - r.ns
      oi(i) == r.old[r.os + i]      \* 1-based i-th item of the old range
      ni(i) == r.new[r.ns + i]
  IN (IF Len(r.old_ids) = no /\ Len(r.new_ids) = nn
         /\ r.ranges = <<r.os, r.oe, r.ns, r.ne>>
      THEN {} ELSE {"ranges"})
     \cup (IF Len(r.old_ids) = no /\ Len(r.new_ids) = nn
              /\ (\A i, j \in 1..no : (r.old_ids[i] = r.old_ids[j]) <=> (oi(i) = oi(j)))
              /\ (\A i, j \in 1..nn : (r.new_ids[i] = r.new_ids[j]) <=> (ni(i) = ni(j)))
              /\ (\A i \in 1..no : \A j \in 1..nn : (r.old_ids[i] = r.new_ids[j]) <=> (oi(i) = ni(j)))
           THEN {} ELSE {"ids"})

(***************************************************************************)
(* C17: remapped slices.  Per op the harness logs the remapper's slices    *)
(* <<tag, bytes, offset in the original text>> and the token slices of the *)
(* slice-wise expansion <<tag, <<token bytes>>>>.                          *)
(***************************************************************************)
SliceBytes(ss) == FlattenSeq([i \in 1..Len(ss) |-> ss[i][2]])

\* every slice starts at the cumulative position on its side: Equal and Delete
\* slices are substrings of old, Insert slices of new
OffsetsOk(ss) ==
  FoldLeft(LAMBDA acc, x :
             LET len == Len(x[2])
                 pos == IF x[1] = 2 THEN acc[3] ELSE acc[2]
             IN <<acc[1] /\ (x[3] = pos \/ (x[3] = -1 /\ len = 0)),
                  IF x[1] # 2 THEN acc[2] + len ELSE acc[2],
                  IF x[1] # 1 THEN acc[3] + len ELSE acc[3]>>,
           <<TRUE, 0, 0>>, ss)[1]

RemapViol(r) ==
  IF r.panic THEN {"panic"}
  ELSE
  LET P == r.per_op
      OpOk(i) == /\ Len(P[i].remapped) = Len(P[i].tokens)
                 /\ \A k \in 1..Len(P[i].remapped) :
                       /\ P[i].remapped[k][1] = P[i].tokens[k][1]
                       /\ P[i].remapped[k][2] = FlattenSeq(P[i].tokens[k][2])
      allS == FlattenSeq([i \in 1..Len(P) |-> P[i].remapped])
      nonIns == SelectSeq(allS, LAMBDA x : x[1] # 2)
      nonDel == SelectSeq(allS, LAMBDA x : x[1] # 1)
  IN (IF \A i \in 1..Len(P) : OpOk(i) THEN {} ELSE {"slice_tokens"})
     \cup (IF SliceBytes(nonIns) = r.old /\ SliceBytes(nonDel) = r.new THEN {} ELSE {"recon"})
     \cup (IF OffsetsOk(allS) THEN {} ELSE {"substring"})

HelperViol(r) ==
  IF r.panic THEN {"panic"}
  ELSE IF "skip" \in DOMAIN r THEN {}
  ELSE LET nonIns == SelectSeq(r.result, LAMBDA x : x[1] # 2)
           nonDel == SelectSeq(r.result, LAMBDA x : x[1] # 1)
       IN (IF SliceBytes(nonIns) = r.old /\ SliceBytes(nonDel) = r.new THEN {} ELSE {"recon"})
          \cup (IF \A i \in 1..Len(r.result) : Len(r.result[i][2]) > 0 THEN {} ELSE {"empty_slice"})

(***************************************************************************)
(* C20: determinism and dependence on the equality pattern only.           *)
(***************************************************************************)
SamePattern(u, v) ==
  /\ Len(u) = Len(v)
  /\ \A i, j \in 1..Len(u) : ((u[i] = u[j]) <=> (v[i] = v[j])) /\ ((u[i] < u[j]) <=> (v[i] < v[j]))

DetermViol(r) ==
  (IF \A i \in 1..Len(r.runs) : r.runs[i] = r.runs[1] THEN {} ELSE {"determinism"})
  \cup (IF \A k \in 1..Len(r.variants) :
             /\ Len(r.variants[k][1]) = Len(r.old)
             /\ SamePattern(r.old \o r.new, r.variants[k][1] \o r.variants[k][2])
         THEN {} ELSE {"harness_relabel"})
=============================================================================
