------------------------------ MODULE Oracles ------------------------------
(***************************************************************************)
(* Tier A – independent optima, written as folds (TLC does not memoise     *)
(* recursive function definitions, so no `f[i \in .., j \in ..]` here).    *)
(* Nothing in this module is transcribed from the implementation.          *)
(***************************************************************************)
EXTENDS Integers, Sequences, SequencesExt, FiniteSets

Mx(a, b) == IF a >= b THEN a ELSE b      \* `Max` clashes with CommunityModules
Mn(a, b) == IF a <= b THEN a ELSE b

(* Length of a longest common subsequence of the sequences a and b,         *)
(* classic row-by-row dynamic programme, O(|a|*|b|).                        *)
LcsLen(a, b) ==
  IF Len(a) = 0 \/ Len(b) = 0 THEN 0
  ELSE
    LET M == Len(b)
        Cols == [j \in 1..M |-> j]
        Row(prev, x) ==
          FoldLeft(LAMBDA acc, j :
                     Append(acc, IF x = b[j] THEN prev[j] + 1
                                 ELSE Mx(prev[j + 1], acc[j])),
                   <<0>>, Cols)
    IN FoldLeft(Row, [j \in 1..(M + 1) |-> 0], a)[M + 1]

(* LCS length when no item repeats within either sequence: the common items  *)
(* form a partial permutation, and the LCS is the longest increasing         *)
(* subsequence of their positions in b, taken in the order of a (O(k^2) for  *)
(* k common items - independent of the lengths of a and b).                  *)
AllDistinct(a) == Cardinality({a[i] : i \in 1..Len(a)}) = Len(a)
LcsLenDistinct(a, b) ==
  LET common == {a[i] : i \in 1..Len(a)} \cap {b[j] : j \in 1..Len(b)}
      posB == [v \in common |-> CHOOSE j \in 1..Len(b) : b[j] = v]
      inA == SelectSeq(a, LAMBDA v : v \in common)
      ps == [k \in 1..Len(inA) |-> posB[inA[k]]]
      \* best[k] = length of the longest increasing subsequence of ps ending at k
      step(best, k) == Append(best, 1 + FoldLeft(LAMBDA m, i : IF ps[i] < ps[k] /\ best[i] > m THEN best[i] ELSE m,
                                                 0, [i \in 1..(k - 1) |-> i]))
      best == FoldLeft(step, <<>>, [k \in 1..Len(ps) |-> k])
  IN FoldLeft(LAMBDA m, x : Mx(m, x), 0, best)

(* 0-based slice s[lo..hi) of a TLA+ sequence                               *)
Slice(s, lo, hi) == SubSeq(s, lo + 1, hi)

(* The set of values that occur exactly once in s                           *)
Count(s, v) == Cardinality({i \in 1..Len(s) : s[i] = v})
OnceIn(s) == {v \in {s[i] : i \in 1..Len(s)} : Count(s, v) = 1}

(* Items that are unique in both a and b                                    *)
CommonUnique(a, b) == OnceIn(a) \cap OnceIn(b)

(* K of property C15: the longest subsequence of the common unique items    *)
(* that appears in the same relative order in a and in b.                   *)
AnchorOptimum(a, b) ==
  LET U == CommonUnique(a, b)
      InU(v) == v \in U
  IN LcsLen(SelectSeq(a, InU), SelectSeq(b, InU))

(* Sum of a sequence of integers                                            *)
SumSeq(s) == FoldLeft(LAMBDA acc, x : acc + x, 0, s)

(* Lexicographic order on sequences of naturals (bytes): a <= b             *)
LexLeq(a, b) ==
  LET n == Mn(Len(a), Len(b))
      D == {i \in 1..n : a[i] # b[i]}
  IN IF D = {} THEN Len(a) <= Len(b)
     ELSE LET k == CHOOSE i \in D : \A j \in D : i <= j IN a[k] < b[k]
=============================================================================
