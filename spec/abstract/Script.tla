------------------------------- MODULE Script -------------------------------
(***************************************************************************)
(* Tier A – the DiffHook protocol: which streams of                        *)
(* equal/delete/insert/replace/finish callbacks are valid edit scripts     *)
(* for given sequences and index ranges (properties C01, C07, C08, C10).   *)
(*                                                                         *)
(* The module is purely operator-level: a script state is a record, an     *)
(* event is a record, `SViol(s, e)` is the set of *clauses* of the          *)
(* properties that event e violates in state s, and `SStep(s, e)` is the    *)
(* successor state.  The same text is used                                 *)
(*   (i)   as acceptor when TLC validates traces recorded from the code,   *)
(*   (ii)  as generator of every valid script (ScriptGen / the adapter     *)
(*         models use `SEnabled(s)`), and                                   *)
(*   (iii) as refinement target of the implementation-shaped models        *)
(*         (`SRun` folds a whole emitted history).                      *)
(*                                                                         *)
(* All indices are the code's 0-based indices; TLA+ sequences are 1-based, *)
(* hence At(s, i) == s[i + 1].                                             *)
(*                                                                         *)
(* Clauses:                                                                *)
(*   "script"        cursor/gap/overlap/range/empty/unequal-Equal, or the  *)
(*                   walk does not end at both range ends                  *)
(*   "carried"       new index carried by a Delete / old index carried by  *)
(*                   an Insert lies outside the change run it belongs to   *)
(*   "recon"         replaying the callbacks on old does not give new      *)
(*   "after_finish"  a callback after finish                               *)
(*   "finish_twice"  a second finish                                       *)
(*   "after_error"   a callback after a callback returned an error         *)
(***************************************************************************)
EXTENDS Integers, Sequences, FiniteSets

At(q, i) == q[i + 1]

SInit(old, new, os, oe, ns, ne) ==
  [old |-> old, new |-> new, os |-> os, oe |-> oe, ns |-> ns, ne |-> ne,
   oc |-> os, nc |-> ns,             \* cursors: next unconsumed item on each side
   runO |-> os, runN |-> ns,         \* cursors at the start of the current change run
   pendO |-> {}, pendN |-> {},       \* carried indices seen in the current change run
   fin |-> 0,                        \* number of finish calls
   failed |-> FALSE, failcall |-> -1,\* a callback returned an error (its call index)
   broken |-> FALSE,                 \* a "script" clause failed: cursors are meaningless
   built |-> <<>>,                   \* the new range as rebuilt from the callbacks
   dels |-> 0, inss |-> 0,           \* deleted / inserted item totals
   rdels |-> 0, rinss |-> 0, reqs |-> 0,  \* the same as reported, whether or not the script is valid
   segs |-> <<>>,                    \* the Equal segments <<o, n, len>>
   calls |-> 0]

(* the carried indices of the change run being closed lie inside the run   *)
RunOk(s) == /\ \A x \in s.pendO : s.runO <= x /\ x <= s.oc
            /\ \A y \in s.pendN : s.runN <= y /\ y <= s.nc

EqSeg(s, o, n, len) == \A i \in 0..(len - 1) : At(s.old, o + i) = At(s.new, n + i)

Proto(s) == (IF s.fin > 0 THEN {"after_finish"} ELSE {})
            \cup (IF s.failed THEN {"after_error"} ELSE {})

\* ---------------------------------------------------------------- guards
EqualOk(s, e) == /\ e.len > 0 /\ e.o = s.oc /\ e.n = s.nc
                 /\ e.o + e.len <= s.oe /\ e.n + e.len <= s.ne
                 /\ EqSeg(s, e.o, e.n, e.len)
DeleteOk(s, e) == e.len > 0 /\ e.o = s.oc /\ e.o + e.len <= s.oe
InsertOk(s, e) == e.len > 0 /\ e.n = s.nc /\ e.n + e.len <= s.ne
ReplaceOk(s, e) == /\ e.ol > 0 /\ e.nl > 0 /\ e.o = s.oc /\ e.n = s.nc
                   /\ e.o + e.ol <= s.oe /\ e.n + e.nl <= s.ne
Complete(s) == s.oc = s.oe /\ s.nc = s.ne

SViol(s, e) ==
  IF e.ev = "finish" THEN
       (IF s.fin > 0 THEN {"finish_twice"} ELSE {})
       \cup (IF s.failed THEN {"after_error"} ELSE {})
       \cup (IF s.broken THEN {}
             ELSE (IF Complete(s) THEN {} ELSE {"script"})
                  \cup (IF RunOk(s) THEN {} ELSE {"carried"})
                  \cup (IF Complete(s) /\ s.built # SubSeq(s.new, s.ns + 1, s.ne)
                        THEN {"recon"} ELSE {}))
  ELSE Proto(s) \cup
       (IF s.broken THEN {}
        ELSE CASE e.ev = "equal" ->
                    (IF EqualOk(s, e) THEN {} ELSE {"script"})
                    \cup (IF RunOk(s) THEN {} ELSE {"carried"})
               [] e.ev = "delete" -> (IF DeleteOk(s, e) THEN {} ELSE {"script"})
               [] e.ev = "insert" -> (IF InsertOk(s, e) THEN {} ELSE {"script"})
               [] e.ev = "replace" -> (IF ReplaceOk(s, e) THEN {} ELSE {"script"}))

\* ---------------------------------------------------------------- updates
EvLen(e, f) == IF f \in DOMAIN e /\ e[f] > 0 THEN e[f] ELSE 0
Tick(s, e) == [s EXCEPT !.calls = @ + 1,
                         !.rdels = @ + (CASE e.ev = "delete" -> EvLen(e, "len")
                                          [] e.ev = "replace" -> EvLen(e, "ol") [] OTHER -> 0),
                         !.rinss = @ + (CASE e.ev = "insert" -> EvLen(e, "len")
                                          [] e.ev = "replace" -> EvLen(e, "nl") [] OTHER -> 0),
                         !.reqs = @ + (IF e.ev = "equal" THEN EvLen(e, "len") ELSE 0),
                         !.failed = @ \/ (IF "err" \in DOMAIN e THEN e.err ELSE FALSE),
                         !.failcall = IF ~s.failed /\ "err" \in DOMAIN e /\ e.err
                                      THEN s.calls ELSE @]

SStep(s, e) ==
  LET c == Tick(s, e) IN
  IF e.ev = "finish" THEN [c EXCEPT !.fin = @ + 1]
  ELSE IF s.broken THEN c
  ELSE CASE e.ev = "equal" ->
              IF EqualOk(s, e)
              THEN [c EXCEPT !.oc = @ + e.len, !.nc = @ + e.len,
                             !.runO = s.oc + e.len, !.runN = s.nc + e.len,
                             !.pendO = {}, !.pendN = {},
                             !.built = @ \o SubSeq(s.old, e.o + 1, e.o + e.len),
                             !.segs = Append(@, <<e.o, e.n, e.len>>)]
              ELSE [c EXCEPT !.broken = TRUE]
         [] e.ev = "delete" ->
              IF DeleteOk(s, e)
              THEN [c EXCEPT !.oc = @ + e.len, !.pendN = @ \cup {e.n}, !.dels = @ + e.len]
              ELSE [c EXCEPT !.broken = TRUE]
         [] e.ev = "insert" ->
              IF InsertOk(s, e)
              THEN [c EXCEPT !.nc = @ + e.len, !.pendO = @ \cup {e.o}, !.inss = @ + e.len,
                             !.built = @ \o SubSeq(s.new, e.n + 1, e.n + e.len)]
              ELSE [c EXCEPT !.broken = TRUE]
         [] e.ev = "replace" ->
              IF ReplaceOk(s, e)
              THEN [c EXCEPT !.oc = @ + e.ol, !.nc = @ + e.nl,
                             !.dels = @ + e.ol, !.inss = @ + e.nl,
                             !.built = @ \o SubSeq(s.new, e.n + 1, e.n + e.nl)]
              ELSE [c EXCEPT !.broken = TRUE]

(***************************************************************************)
(* Clauses evaluated when the diff call returns.  `expectFinish` is FALSE  *)
(* behind the finish-suppressing wrapper, where completeness must be       *)
(* checked at the return instead.                                          *)
(***************************************************************************)
SRetViol(s, ok, err, expectFinish) ==
  IF s.failed
  THEN IF ~ok /\ err = s.failcall THEN {} ELSE {"ret_error"}
  ELSE (IF ok THEN {} ELSE {"ret_error"})
       \cup (IF expectFinish
             THEN (IF s.fin = 0 THEN {"no_finish"} ELSE {})
             ELSE (IF s.fin > 0 THEN {"finish_leaked"} ELSE {})
                  \cup (IF s.broken THEN {}
                        ELSE (IF Complete(s) THEN {} ELSE {"script"})
                             \cup (IF RunOk(s) THEN {} ELSE {"carried"})))

(***************************************************************************)
(* (iii) whole histories: the union of the clauses violated by a sequence  *)
(* of events, and the final state.                                         *)
(***************************************************************************)
RECURSIVE SRunFrom(_, _, _, _)
SRunFrom(s, evs, i, acc) ==
  IF i > Len(evs) THEN [s |-> s, viol |-> acc]
  ELSE SRunFrom(SStep(s, evs[i]), evs, i + 1, acc \cup SViol(s, evs[i]))
SRun(old, new, os, oe, ns, ne, evs) == SRunFrom(SInit(old, new, os, oe, ns, ne), evs, 1, {})

(* a partial stream is acceptable so far                                   *)
PrefixOk(old, new, os, oe, ns, ne, evs) == SRun(old, new, os, oe, ns, ne, evs).viol = {}

(***************************************************************************)
(* (ii) generator: the events enabled in state s, with lengths up to maxl  *)
(* and exact carried indices (what a well-behaved algorithm emits).        *)
(***************************************************************************)
EvEqual(o, n, len) == [ev |-> "equal", o |-> o, n |-> n, len |-> len]
EvDelete(o, len, n) == [ev |-> "delete", o |-> o, len |-> len, n |-> n]
EvInsert(o, n, len) == [ev |-> "insert", o |-> o, n |-> n, len |-> len]
EvReplace(o, ol, n, nl) == [ev |-> "replace", o |-> o, ol |-> ol, n |-> n, nl |-> nl]
EvFinish == [ev |-> "finish"]

\* streams as integer tuples <<tag, o, ol, n, nl>> (tag 0 = equal .. 3 = replace, 4 = finish)
TupleEvent(t) ==
  CASE t[1] = 0 -> EvEqual(t[2], t[4], t[3])
    [] t[1] = 1 -> EvDelete(t[2], t[3], t[4])
    [] t[1] = 2 -> EvInsert(t[2], t[4], t[5])
    [] t[1] = 3 -> EvReplace(t[2], t[3], t[4], t[5])
    [] t[1] = 4 -> EvFinish
TupleEvents(ts) == [i \in 1..Len(ts) |-> TupleEvent(ts[i])]

SEnabled(s, maxl) ==
  IF s.fin > 0 THEN {}
  ELSE {EvEqual(s.oc, s.nc, k) : k \in {k \in 1..maxl :
              s.oc + k <= s.oe /\ s.nc + k <= s.ne /\ EqSeg(s, s.oc, s.nc, k)}}
       \cup {EvDelete(s.oc, k, s.nc) : k \in {k \in 1..maxl : s.oc + k <= s.oe}}
       \cup {EvInsert(s.oc, s.nc, k) : k \in {k \in 1..maxl : s.nc + k <= s.ne}}
       \cup (IF Complete(s) THEN {EvFinish} ELSE {})
=============================================================================
