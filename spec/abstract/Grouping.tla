------------------------------ MODULE Grouping ------------------------------
(***************************************************************************)
(* Tier A – what `group_diff_ops(ops, n)` may return (property C12).       *)
(* Written declaratively from the statement, not as the code's fold:       *)
(*  - the changes (non-Equal ops) of the input, in order, are partitioned  *)
(*    into maximal runs in which consecutive changes are separated by at   *)
(*    most 2n equal items;                                                 *)
(*  - a group is such a run with everything between its first and last     *)
(*    change verbatim, preceded by the last min(n, L) items of the Equal   *)
(*    op in front of it and followed by the first min(n, L) items of the   *)
(*    Equal op behind it (when those exist and the context is non-empty);  *)
(*  - no changes, no groups.                                               *)
(* The statement leaves open whether "0 items of context" is represented   *)
(* by no op or by an empty Equal op at the group's edge; both are accepted *)
(* (Normalize).  Apart from that the result is unique, so the predicate is *)
(* an equality.                                                            *)
(* Ops are tuples <<tag, old_index, old_len, new_index, new_len>>.         *)
(***************************************************************************)
EXTENDS Integers, Sequences, SequencesExt, FiniteSets, Oracles

GIsEq(op) == op[1] = 0
GLen(op) == op[3]

\* indices of the changes, ascending
ChangeIdx(T) == SelectSeq([i \in 1..Len(T) |-> i], LAMBDA i : ~GIsEq(T[i]))

\* equal items between positions i < j of T
EqBetween(T, i, j) == SumSeq([k \in 1..(j - i - 1) |-> IF GIsEq(T[i + k]) THEN GLen(T[i + k]) ELSE 0])

LeadCtx(T, i, n) ==
  IF i > 1 /\ GIsEq(T[i - 1])
  THEN LET e == T[i - 1] L == GLen(e) m == Mn(n, L)
       IN IF m > 0 THEN <<<<0, e[2] + L - m, m, e[4] + L - m, m>>>> ELSE <<>>
  ELSE <<>>
TrailCtx(T, j, n) ==
  IF j < Len(T) /\ GIsEq(T[j + 1])
  THEN LET e == T[j + 1] L == GLen(e) m == Mn(n, L)
       IN IF m > 0 THEN <<<<0, e[2], m, e[4], m>>>> ELSE <<>>
  ELSE <<>>

Expected(T, n) ==
  LET C == ChangeIdx(T)
      K == Len(C)
      Starts == {k \in 1..K : k = 1 \/ EqBetween(T, C[k - 1], C[k]) > 2 * n}
      EndOf(k) == IF \E k2 \in Starts : k2 > k
                  THEN (CHOOSE k2 \in Starts : k2 > k /\ \A k3 \in Starts : k3 > k => k2 <= k3) - 1
                  ELSE K
      StartSeq == SelectSeq([k \in 1..K |-> k], LAMBDA k : k \in Starts)
  IN [g \in 1..Len(StartSeq) |->
        LET a == C[StartSeq[g]] b == C[EndOf(StartSeq[g])]
        IN LeadCtx(T, a, n) \o SubSeq(T, a, b) \o TrailCtx(T, b, n)]

\* drop empty Equal ops at the edges of a group
DropLead(g) == IF Len(g) > 0 /\ GIsEq(g[1]) /\ GLen(g[1]) = 0 THEN Tail(g) ELSE g
DropTrail(g) == IF Len(g) > 0 /\ GIsEq(g[Len(g)]) /\ GLen(g[Len(g)]) = 0 THEN SubSeq(g, 1, Len(g) - 1) ELSE g
Normalize(G) == [i \in 1..Len(G) |-> DropTrail(DropLead(G[i]))]

GroupViol(r) ==
  IF r.panic THEN {"panic"}
  ELSE IF Normalize(r.groups) = Expected(r.ops, r.n) THEN {} ELSE {"grouping"}
=============================================================================
