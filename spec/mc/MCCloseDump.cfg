SPECIFICATION Spec
CONSTANTS
  MaxLen = 2
  Alpha = {1, 2}
INVARIANTS DumpInv
CHECK_DEADLOCK FALSE
