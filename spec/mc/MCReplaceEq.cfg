SPECIFICATION EqSpec
CONSTANTS
  MaxSteps = 6
INVARIANTS SameState
CHECK_DEADLOCK FALSE
