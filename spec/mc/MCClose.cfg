SPECIFICATION Spec
CONSTANTS
  MaxLen = 3
  Alpha = {1, 2}
INVARIANTS FiltersAreUpperBounds ResultOk
CHECK_DEADLOCK FALSE
