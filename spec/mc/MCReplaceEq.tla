---------------------------- MODULE MCReplaceEq ----------------------------
(***************************************************************************)
(* Binds the integer-only formulation `ReplaceInd` (whose invariant is     *)
(* discharged by Apalache for unbounded lengths) to the Tier-B model       *)
(* `Replace` (which is replayed against the real code): both are stepped   *)
(* with the same inputs and must keep the same pending state and the same  *)
(* emitted totals in every reachable state within the bound.               *)
(***************************************************************************)
EXTENDS ReplaceInd, Replace, Sequences

CONSTANT MaxSteps
VARIABLES r, outs, steps
allvars == <<ioc, inc, hasDel, delO, delLen, delN, hasIns, insO, insN, insLen, hasEq, eqO, eqN, eqLen,
             eoc, enc, outOk, finished, r, outs, steps>>

EqInit == Init /\ r = RInit /\ outs = <<>> /\ steps = 0
Both(act, t) == /\ act
                /\ LET x == RStep(r, t) IN r' = x.r /\ outs' = outs \o x.out
                /\ steps' = steps + 1
EqNext ==
  /\ steps < MaxSteps
  /\ \/ \E len \in 1..2 : \/ Both(InEqual(len), <<0, ioc, len, inc, len>>)
                           \/ Both(InDelete(len), <<1, ioc, len, inc, 0>>)
                           \/ Both(InInsert(len), <<2, ioc, 0, inc, len>>)
     \/ Both(InFinish, <<4, 0, 0, 0, 0>>)
EqSpec == EqInit /\ [][EqNext]_allvars

RECURSIVE OldSum(_, _)
OldSum(q, i) == IF i > Len(q) THEN 0 ELSE (IF q[i][1] \in {0, 1, 3} THEN q[i][3] ELSE 0) + OldSum(q, i + 1)
RECURSIVE NewSum(_, _)
NewSum(q, i) == IF i > Len(q) THEN 0 ELSE (IF q[i][1] \in {0, 2, 3} THEN q[i][5] ELSE 0) + NewSum(q, i + 1)

SameState ==
  /\ r.del = (IF hasDel THEN <<delO, delLen, delN>> ELSE <<>>)
  /\ r.ins = (IF hasIns THEN <<insO, insN, insLen>> ELSE <<>>)
  /\ r.eq = (IF hasEq THEN <<eqO, eqN, eqLen>> ELSE <<>>)
  /\ OldSum(outs, 1) = eoc /\ NewSum(outs, 1) = enc
  /\ IndInv
=============================================================================
