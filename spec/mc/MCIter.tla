------------------------------- MODULE MCIter -------------------------------
(***************************************************************************)
(* P2 for C13: the chained iterator is stepped over every list of up to    *)
(* two ops of all four kinds with arbitrary in-bounds offsets and lengths  *)
(* over two fixed sequences with distinguishable items; in every state the *)
(* emitted changes are a prefix of the Tier-A expansion, at the end they   *)
(* are equal to it.                                                        *)
(***************************************************************************)
EXTENDS ChangesIter, Expansion, TLC

CONSTANTS LenOld, LenNew, MaxOpLen
VARIABLES ops, a, emitted
vars == <<ops, a, emitted>>

Old == [i \in 1..LenOld |-> 10 + i]
New == [i \in 1..LenNew |-> 20 + i]

OpSet == {<<t, o, ol, n, nl>> \in (0..3) \X (0..LenOld) \X (0..MaxOpLen) \X (0..LenNew) \X (0..MaxOpLen) :
             /\ o + ol <= LenOld /\ n + nl <= LenNew
             /\ (t = 0 => ol = nl) /\ (t = 1 => nl = 0) /\ (t = 2 => ol = 0)}

Init == /\ ops \in {<<>>} \cup {<<x>> : x \in OpSet} \cup {<<x, y>> : x \in OpSet, y \in {z \in OpSet : z[1] # 0}}
        /\ a = AllInit(ops) /\ emitted = <<>>
Next == /\ ~a.done
        /\ LET r == AllStep(Old, New, a) IN
             /\ a' = r[1]
             /\ emitted' = IF r[2] = <<>> THEN emitted ELSE Append(emitted, r[2])
        /\ UNCHANGED ops
Spec == Init /\ [][Next]_vars /\ WF_vars(Next)

Exp == FlattenSeq([i \in 1..Len(ops) |-> ExpectedChanges(ops[i], Old, New)])
PrefixOk == Len(emitted) <= Len(Exp) /\ emitted = SubSeq(Exp, 1, Len(emitted))
FinalOk == a.done => emitted = Exp
Terminates == <>a.done
=============================================================================
