SPECIFICATION Spec
CONSTANTS
  MaxLines = 2
  Dump = TRUE
  SwapRepair = FALSE
INVARIANTS DumpInv
CHECK_DEADLOCK FALSE
