SPECIFICATION Spec
CONSTANTS
  MaxLen = 3
  Alpha = {1, 2, 3}
  Alg = "myers"
  WithDeadline = FALSE
  WithFailure = FALSE
  Dump = FALSE
INVARIANTS PrefixValid NeverStuck DLoopBounded FinishedOk FailStops Minimal AnchorsOk WorkOk AfterExpiryOk
PROPERTY Terminates
CHECK_DEADLOCK FALSE
