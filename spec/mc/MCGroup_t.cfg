SPECIFICATION Spec
CONSTANTS
  MaxOps = 5
  MaxN = 3
  Dump = FALSE
INVARIANTS ClosedArePrefix FinalOk NoEqualOnlyGroup
PROPERTY Terminates
CHECK_DEADLOCK FALSE
