SPECIFICATION Spec
CONSTANTS
  MaxLines = 2
  MaxRadius = 1
  SwapRepair = TRUE
INVARIANTS AlwaysAccepted
CHECK_DEADLOCK FALSE
