------------------------------ MODULE MCMyers ------------------------------
(***************************************************************************)
(* P2 configuration of the Tier-B Myers model: every pair of sequences     *)
(* within the bound; optionally the deadline may expire at every probe     *)
(* (WithDeadline) and every hook call may fail (WithFailure).  The Tier-A  *)
(* specification `Script` is the refinement target: the emitted prefix     *)
(* must be an acceptable partial script in every state.                    *)
(***************************************************************************)
EXTENDS Myers, Script, Oracles, Work, TLC, Json

CONSTANTS MaxLen, Alpha, WithDeadline, WithFailure, Dump

VARIABLES old, new, m
vars == <<old, new, m>>

SeqsUpTo(n) == UNION {[1..k -> Alpha] : k \in 0..n}
X == [old |-> old, new |-> new, uo |-> <<>>, un |-> <<>>]
N == Len(old)
M == Len(new)

Init == /\ old \in SeqsUpTo(MaxLen) /\ new \in SeqsUpTo(MaxLen)
        /\ m = MyersInit(0, Len(old), 0, Len(new))

Next ==
  /\ ~m.done
  /\ UNCHANGED <<old, new>>
  /\ CASE MKind(m) = "snake" ->
            IF WithDeadline
            THEN \/ m' = MyersStep(X, m, TRUE, TRUE, FALSE)
                 \/ (~m.expired /\ m' = MyersStep(X, m, TRUE, FALSE, FALSE))
            ELSE m' = MyersStep(X, m, FALSE, FALSE, FALSE)
       [] MKind(m) \in {"emit", "fin"} ->
            \/ m' = MyersStep(X, m, FALSE, FALSE, FALSE)
            \/ (WithFailure /\ m' = MyersStep(X, m, FALSE, FALSE, TRUE))
       [] OTHER -> m' = MyersStep(X, m, FALSE, FALSE, FALSE)

Spec == Init /\ [][Next]_vars /\ WF_vars(Next)

\* ------------------------------------------------------------- properties
R == SRun(old, new, 0, N, 0, M, TupleEvents(m.out))
PrefixValid == R.viol = {}                                               \* C01, C07: in every state
NeverStuck == MKind(m) # "stuck"
DLoopBounded == m.fm # NOFM => m.fm.d < MaxD(m.fm.oe - m.fm.os, m.fm.ne - m.fm.ns)
FinishedOk == (m.done /\ m.failed = -1) => R.s.fin = 1 /\ Complete(R.s)  \* C08: finish once, at the end
FailStops == (m.done /\ m.failed >= 0) => m.failed = Len(m.out) - 1      \* C08: nothing after the failing call
Minimal == (m.done /\ m.failed = -1 /\ m.fuel = -1) =>
              R.s.dels + R.s.inss = N + M - 2 * LcsLen(old, new)          \* C03
WorkOk == (m.done /\ m.failed = -1 /\ m.fuel = -1) => WorkBound(N, M, R.s.dels + R.s.inss, m.cmps)     \* C19
AfterExpiryOk == (m.done /\ m.failed = -1 /\ m.xcmps >= 0) => AfterExpiryBound(N, M, m.xcmps, m.cmps)  \* C07
Terminates == <>m.done

DumpInv == (Dump /\ m.done) =>
   PrintT(<<"REPLAY", ToJson([old |-> old, new |-> new, out |-> m.out, probes |-> m.probes, fuel |-> m.fuel,
                              failed |-> m.failed, cmps |-> m.cmps])>>)
=============================================================================
