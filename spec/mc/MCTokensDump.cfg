SPECIFICATION Spec
CONSTANTS
  MaxChars = 3
INVARIANTS DumpInv
CHECK_DEADLOCK FALSE
