SPECIFICATION Spec
CONSTANTS
  MaxLen = 3
  Alpha = {1, 2, 3}
  Threshold = 2
  SwapRepair = FALSE
INVARIANTS IdsFaithful RangesKept SwitchInvisible
PROPERTY Terminates
CHECK_DEADLOCK FALSE
