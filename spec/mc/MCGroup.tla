------------------------------ MODULE MCGroup ------------------------------
(***************************************************************************)
(* P2 for C12: every alternating op list with at most MaxOps ops, run      *)
(* lengths 1..2n+2, radius n in 0..MaxN, leading change or Equal, is fed   *)
(* to the step machine `Group`; after every loop iteration the groups      *)
(* closed so far are a prefix of the Tier-A expectation, and the final     *)
(* result equals it (up to empty edge Equal ops).                          *)
(***************************************************************************)
EXTENDS Group, Grouping, TLC, Json

CONSTANTS MaxOps, MaxN, Dump
VARIABLES inp, g
vars == <<inp, g>>

\* build an alternating op list from run lengths / kinds, starting with Equal iff lead
RECURSIVE Build(_, _, _, _, _, _)
Build(lens, kinds, i, eq, o, n) ==
  IF i > Len(lens) THEN <<>>
  ELSE LET l == lens[i] IN
       IF eq THEN <<<<0, o, l, n, l>>>> \o Build(lens, kinds, i + 1, FALSE, o + l, n + l)
       ELSE LET k == kinds[i] IN
            CASE k = 1 -> <<<<1, o, l, n, 0>>>> \o Build(lens, kinds, i + 1, TRUE, o + l, n)
              [] k = 2 -> <<<<2, o, 0, n, l>>>> \o Build(lens, kinds, i + 1, TRUE, o, n + l)
              [] k = 3 -> <<<<3, o, l, n, 1>>>> \o Build(lens, kinds, i + 1, TRUE, o + l, n + 1)

Init == \E n \in 0..MaxN, k \in 0..MaxOps, lead \in BOOLEAN :
           \E lens \in [1..k -> 1..(2 * n + 2)], kinds \in [1..k -> 1..3] :
              /\ inp = [ops |-> Build(lens, kinds, 1, lead, 0, 0), n |-> n]
              /\ g = GInit(inp.ops, n)
Next == ~g.done /\ g' = GStep(g) /\ UNCHANGED inp
Spec == Init /\ [][Next]_vars /\ WF_vars(Next)

Exp == Expected(inp.ops, inp.n)
ClosedArePrefix == LET r == Normalize(g.rv) IN Len(r) <= Len(Exp) /\ r = SubSeq(Exp, 1, Len(r))
FinalOk == g.done => Normalize(g.rv) = Exp
NoEqualOnlyGroup == \A i \in 1..Len(g.rv) : \E k \in 1..Len(g.rv[i]) : g.rv[i][k][1] # 0
Terminates == <>g.done
DumpInv == (Dump /\ g.done) => PrintT(<<"REPLAY", ToJson([ops |-> inp.ops, n |-> inp.n, groups |-> g.rv])>>)
=============================================================================
