SPECIFICATION Spec
CONSTANTS
  MaxLines = 2
  MaxRadius = 1
  SwapRepair = FALSE
INVARIANTS AlwaysAccepted
CHECK_DEADLOCK FALSE
