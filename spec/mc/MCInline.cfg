SPECIFICATION Spec
CONSTANTS
  MaxLines = 2
  Dump = FALSE
  SwapRepair = FALSE
INVARIANTS InlineOk
CHECK_DEADLOCK FALSE
