SPECIFICATION Spec
CONSTANTS
  MaxChars = 5
INVARIANTS ShapeOk
CHECK_DEADLOCK FALSE
