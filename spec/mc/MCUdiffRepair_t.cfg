SPECIFICATION Spec
CONSTANTS
  MaxLines = 3
  MaxRadius = 2
  SwapRepair = TRUE
INVARIANTS AlwaysAccepted
CHECK_DEADLOCK FALSE
