SPECIFICATION Spec
CONSTANTS
  MaxLen = 4
  Alpha = {1, 2, 3}
  WithDeadline = FALSE
  WithFailure = FALSE
  Dump = FALSE
INVARIANTS PrefixValid NeverStuck DLoopBounded FinishedOk FailStops Minimal WorkOk AfterExpiryOk
PROPERTY Terminates
CHECK_DEADLOCK FALSE
