----------------------------- MODULE MCIdentify -----------------------------
(***************************************************************************)
(* P2 for C14: IdentifyDistinct stepped item by item over every pair of    *)
(* sequences (with one padding item in front, so range starts are          *)
(* non-zero): ids are equal exactly when items are equal, in every state;  *)
(* and the size switch of `TextDiffConfig::diff` (Threshold is 100 in the  *)
(* code, a small constant here so that TLC covers both sides): the ops     *)
(* captured on the ids equal the ops captured on the items.                *)
(***************************************************************************)
EXTENDS Identify, Pipeline, TLC

CONSTANTS MaxLen, Alpha, Threshold
VARIABLES old, new, st
vars == <<old, new, st>>

SeqsUpTo(n) == UNION {[1..k -> Alpha] : k \in 0..n}
Pad == 9
PO == <<Pad>> \o old
PN == <<Pad, Pad>> \o new

Init == old \in SeqsUpTo(MaxLen) /\ new \in SeqsUpTo(MaxLen) /\ st = IdInit
Next == ~st.done /\ st' = IdStep(PO, 1, 1 + Len(old), PN, 2, 2 + Len(new), st) /\ UNCHANGED <<old, new>>
Spec == Init /\ [][Next]_vars /\ WF_vars(Next)

IdsFaithful ==
  /\ \A i, j \in 1..Len(st.oldIds) : (st.oldIds[i] = st.oldIds[j]) <=> (old[i] = old[j])
  /\ \A i, j \in 1..Len(st.newIds) : (st.newIds[i] = st.newIds[j]) <=> (new[i] = new[j])
  /\ \A i \in 1..Len(st.oldIds) : \A j \in 1..Len(st.newIds) : (st.oldIds[i] = st.newIds[j]) <=> (old[i] = new[j])
RangesKept == st.done => Len(st.oldIds) = Len(old) /\ Len(st.newIds) = Len(new)
\* TextDiffConfig::diff: above the threshold the algorithm runs on the ids
SwitchInvisible ==
  st.done => \E a \in {CaptureDiff(old, new).ops} :
               (IF Len(old) > Threshold \/ Len(new) > Threshold THEN CaptureDiff(st.oldIds, st.newIds).ops ELSE a) = a
Terminates == <>st.done
=============================================================================
