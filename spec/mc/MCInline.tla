------------------------------ MODULE MCInline ------------------------------
(***************************************************************************)
(* P2 for C16: the `Inline` model on every Replace op of up to MaxLines    *)
(* old and new lines drawn from a small set of similar lines (so that both *)
(* ratio gates are passed and failed), judged by Tier-A `InlineA`.         *)
(***************************************************************************)
EXTENDS Inline, InlineA, Json

CONSTANTS MaxLines, Dump
VARIABLES ol, nl
vars == <<ol, nl>>
\* "a b\n" "a c\n" "b\n" "a  b\r" "c a b\r\n" "a b" (no terminator)
Lines == {<<97, 32, 98, 10>>, <<97, 32, 99, 10>>, <<98, 10>>, <<97, 32, 32, 98, 13>>, <<99, 32, 97, 32, 98, 13, 10>>, <<97, 32, 98>>}
Init == ol \in UNION {[1..k -> Lines] : k \in 1..MaxLines} /\ nl \in UNION {[1..k -> Lines] : k \in 1..MaxLines}
Next == UNCHANGED vars
Spec == Init /\ [][Next]_vars

InlineOk ==
  \E inl \in {InlineReplace(ol, nl, 0, 0)} :
     InlineOpViol([tag |-> 3, plain |-> [i \in 1..Len(ol) |-> <<1, i - 1, -1, ol[i]>>] \o [i \in 1..Len(nl) |-> <<2, -1, i - 1, nl[i]>>],
                   inline |-> inl]) = {}
DumpInv == Dump => PrintT(<<"REPLAY", ToJson([ol |-> ol, nl |-> nl, inl |-> InlineReplace(ol, nl, 0, 0)])>>)
=============================================================================
