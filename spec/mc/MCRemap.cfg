SPECIFICATION Spec
CONSTANTS
  MaxToks = 3
  SwapRepair = FALSE
INVARIANTS RemapOk
CHECK_DEADLOCK FALSE
