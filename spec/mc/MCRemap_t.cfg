SPECIFICATION Spec
CONSTANTS
  MaxToks = 4
  SwapRepair = FALSE
INVARIANTS RemapOk
CHECK_DEADLOCK FALSE
