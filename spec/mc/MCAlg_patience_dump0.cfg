SPECIFICATION Spec
CONSTANTS
  MaxLen = 3
  Alpha = {1, 2, 3}
  Alg = "patience"
  WithDeadline = FALSE
  WithFailure = FALSE
  Dump = TRUE
INVARIANTS DumpInv

CHECK_DEADLOCK FALSE
