SPECIFICATION Spec
CONSTANTS
  MaxLen = 4
  Alpha = {1, 2}
INVARIANTS FiltersAreUpperBounds ResultOk
CHECK_DEADLOCK FALSE
