SPECIFICATION Spec
CONSTANTS
  MaxOps = 4
  MaxN = 2
  Dump = FALSE
INVARIANTS ClosedArePrefix FinalOk NoEqualOnlyGroup
PROPERTY Terminates
CHECK_DEADLOCK FALSE
