SPECIFICATION Spec
CONSTANTS
  MaxLen = 3
  Alpha = {1, 2, 3}
  Alg = "myers"
  WithDeadline = TRUE
  WithFailure = TRUE
  Dump = TRUE
INVARIANTS DumpInv

CHECK_DEADLOCK FALSE
