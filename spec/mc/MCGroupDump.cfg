SPECIFICATION Spec
CONSTANTS
  MaxOps = 3
  MaxN = 2
  Dump = TRUE
INVARIANTS DumpInv
CHECK_DEADLOCK FALSE
