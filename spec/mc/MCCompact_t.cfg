SPECIFICATION Spec
CONSTANTS
  MaxLen = 4
  Alpha = {1, 2}
  SwapRepair = FALSE
  Dump = FALSE
VIEW view
INVARIANTS ValidAlways CostKept PtrOk LatestAtEnd NoEmptyAtEnd PipedNormal PipedCost ExactUnlessSwapped
PROPERTY Terminates
CHECK_DEADLOCK FALSE
