SPECIFICATION Spec
CONSTANTS
  MaxLines = 3
  MaxRadius = 2
  SwapRepair = FALSE
INVARIANTS AcceptedOrSwapped
CHECK_DEADLOCK FALSE
