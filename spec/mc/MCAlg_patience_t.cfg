SPECIFICATION Spec
CONSTANTS
  MaxLen = 5
  Alpha = {1, 2, 3}
  Alg = "patience"
  WithDeadline = FALSE
  WithFailure = FALSE
  Dump = FALSE
INVARIANTS PrefixValid NeverStuck DLoopBounded FinishedOk FailStops Minimal AnchorsOk WorkOk AfterExpiryOk

CHECK_DEADLOCK FALSE
