SPECIFICATION Spec
CONSTANTS
  MaxLen = 4
  Alpha = {1, 2, 3}
  Alg = "myers"
  WithDeadline = FALSE
  WithFailure = FALSE
  Dump = TRUE
INVARIANTS DumpInv

CHECK_DEADLOCK FALSE
