SPECIFICATION Spec
CONSTANTS
  LenOld = 3
  LenNew = 3
  MaxOpLen = 3
INVARIANTS PrefixOk FinalOk
PROPERTY Terminates
CHECK_DEADLOCK FALSE
