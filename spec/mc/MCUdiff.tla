------------------------------ MODULE MCUdiff ------------------------------
(***************************************************************************)
(* P2 for C05 (and the model-level witness of known finding KF-2): for     *)
(* every pair of line texts within the bound the composed model            *)
(*   Myers -> Compact -> Replace -> group -> render                        *)
(* produces bytes that the Tier-A acceptor `Patch` must accept.  With      *)
(* SwapRepair = TRUE that holds for every input.  With SwapRepair = FALSE  *)
(* (the code as shipped) `AcceptedOrSwapped` holds: a rendering is only    *)
(* ever rejected when a swap arm of the compaction fired, i.e. the stale   *)
(* carried indices are the only cause within the bound.                    *)
(***************************************************************************)
EXTENDS Pipeline, Udiff, Patch, TLC, Json

CONSTANTS MaxLines, MaxRadius
VARIABLES old, new, radius, header, rendered, swapped
vars == <<old, new, radius, header, rendered, swapped>>

Term == {<<97, 10>>, <<98, 10>>, <<97, 13>>, <<98, 13, 10>>}     \* a LF, b LF, a CR, b CRLF
Unterm == {<<97>>, <<99>>}                                        \* a, c without terminator
Texts == UNION {[1..n -> Term] : n \in 0..MaxLines}
         \cup {Append(t, u) : t \in UNION {[1..n -> Term] : n \in 0..(MaxLines - 1)}, u \in Unterm}

\* The rendering is computed once, in the step from "input chosen" to "rendered", and stored in a
\* variable: TLC re-evaluates a state-level operator argument at every use, which would re-run the
\* whole pipeline for every byte the acceptor looks at.
Init == /\ old \in Texts /\ new \in Texts /\ radius \in 0..MaxRadius /\ header \in BOOLEAN
        /\ rendered = <<-1>> /\ swapped = FALSE
RenderStep == /\ rendered = <<-1>>
              /\ LET d == CaptureDiff(old, new) IN
                   /\ rendered' = Render(old, new, d.ops, radius, header)
                   /\ swapped' = d.swapped
              /\ UNCHANGED <<old, new, radius, header>>
Next == RenderStep
Spec == Init /\ [][Next]_vars

Ok == rendered # <<-1>> => \E fo \in {FlattenSeq(old)}, fn \in {FlattenSeq(new)} : Accepts(rendered, fo, fn, radius, header)
AlwaysAccepted == Ok                      \* holds with SwapRepair = TRUE
AcceptedOrSwapped == Ok \/ swapped        \* holds with SwapRepair = FALSE
DumpInv == rendered # <<-1>> =>
   PrintT(<<"REPLAY", ToJson([kind |-> "udiff", old |-> old, new |-> new, radius |-> radius, header |-> header,
                              expected |-> rendered])>>)
=============================================================================
