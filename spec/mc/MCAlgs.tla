------------------------------- MODULE MCAlgs -------------------------------
(***************************************************************************)
(* P2 configuration of the Tier-B algorithm models (Alg = "myers", "lcs"   *)
(* or "patience"): every pair of sequences within the bound; optionally    *)
(* the deadline may expire at every probe (WithDeadline) and every hook    *)
(* call may fail (WithFailure).  The Tier-A specification `Script` is the  *)
(* refinement target: the emitted prefix must be an acceptable partial     *)
(* script in every state.  For Patience the collection order of the        *)
(* HashMap in unique() is chosen nondeterministically (ho, hn).            *)
(***************************************************************************)
EXTENDS Lcs, Patience, Script, Oracles, Work, Json

CONSTANTS MaxLen, Alpha, Alg, WithDeadline, WithFailure, Dump

VARIABLES old, new, uo, un, m
vars == <<old, new, uo, un, m>>

SeqsUpTo(n) == UNION {[1..k -> Alpha] : k \in 0..n}
X == [old |-> old, new |-> new, uo |-> uo, un |-> un]
N == Len(old)
M == Len(new)


Init == /\ old \in SeqsUpTo(MaxLen) /\ new \in SeqsUpTo(MaxLen)
        /\ IF Alg = "patience"
           THEN \E ho \in SetToSeqs(UniqueIdx(old, 0, Len(old))), hn \in SetToSeqs(UniqueIdx(new, 0, Len(new))) :
                   /\ uo = SortIdx(ho) /\ un = SortIdx(hn)
                   /\ m = PatienceInit(SortIdx(ho), SortIdx(hn), 0, 0)
           ELSE /\ uo = <<>> /\ un = <<>>
                /\ m = IF Alg = "myers" THEN MyersInit(0, Len(old), 0, Len(new))
                       ELSE LcsInit(0, Len(old), 0, Len(new))

Step(probe, exp, fail) ==
  CASE Alg = "myers" -> MyersStep(X, m, probe, exp, fail)
    [] Alg = "lcs" -> LcsStep(X, m, probe, exp, fail)
    [] Alg = "patience" -> PatienceStep(X, m, N, M, probe, exp, fail)

Kind == IF Alg = "patience" THEN PKind(m) ELSE MKind(m)

Next ==
  /\ ~m.done
  /\ UNCHANGED <<old, new, uo, un>>
  /\ CASE Kind \in {"snake", "l_row"} ->
            IF WithDeadline
            THEN \/ m' = Step(TRUE, TRUE, FALSE)
                 \/ (~m.expired /\ m' = Step(TRUE, FALSE, FALSE))
            ELSE m' = Step(FALSE, FALSE, FALSE)
       [] Kind \in {"emit", "fin"} ->
            \/ m' = Step(FALSE, FALSE, FALSE)
            \/ (WithFailure /\ m' = Step(FALSE, FALSE, TRUE))
       [] OTHER -> m' = Step(FALSE, FALSE, FALSE)

Spec == Init /\ [][Next]_vars /\ WF_vars(Next)

\* ------------------------------------------------------------- properties
R == SRun(old, new, 0, N, 0, M, TupleEvents(m.out))
Clean == m.done /\ m.failed = -1
PrefixValid == R.viol = {}                                               \* C01, C07: in every state
NeverStuck == Kind # "stuck"
DLoopBounded == m.fm # NOFM => m.fm.d < MaxD(m.fm.oe - m.fm.os, m.fm.ne - m.fm.ns)
FinishedOk == Clean => R.s.fin = 1 /\ Complete(R.s) /\ m.stack = <<>>    \* C08: finish once, at the end
FailStops == (m.done /\ m.failed >= 0) => m.failed = Len(m.out) - 1      \* C08: nothing after the failing call
Minimal == (Clean /\ m.fuel = -1 /\ Alg \in {"myers", "lcs"}) =>
              R.s.dels + R.s.inss = N + M - 2 * LcsLen(old, new)          \* C03
AnchorsOk == (Clean /\ m.fuel = -1 /\ Alg = "patience") =>               \* C15
   SumSeq([i \in 1..Len(R.s.segs) |->
       Cardinality({j \in 0..(R.s.segs[i][3] - 1) : At(old, R.s.segs[i][1] + j) \in CommonUnique(old, new)})])
     >= AnchorOptimum(old, new)
WorkOk == (Clean /\ m.fuel = -1 /\ Alg \in {"myers", "patience"}) =>
              WorkBound(N, M, R.s.dels + R.s.inss, m.cmps)                \* C19
AfterExpiryOk == (Clean /\ m.xcmps >= 0) => AfterExpiryBound(N, M, m.xcmps, m.cmps)     \* C07
Terminates == <>m.done

DumpInv == (Dump /\ m.done) =>
   PrintT(<<"REPLAY", ToJson([old |-> old, new |-> new, out |-> m.out, probes |-> m.probes, fuel |-> m.fuel,
                              failed |-> m.failed, cmps |-> m.cmps])>>)
=============================================================================
