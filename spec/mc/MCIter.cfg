SPECIFICATION Spec
CONSTANTS
  LenOld = 3
  LenNew = 2
  MaxOpLen = 2
INVARIANTS PrefixOk FinalOk
PROPERTY Terminates
CHECK_DEADLOCK FALSE
