SPECIFICATION Spec
CONSTANTS
  MaxLen = 4
  Alpha = {1, 2}
  Alg = "lcs"
  WithDeadline = TRUE
  WithFailure = TRUE
  Dump = FALSE
INVARIANTS PrefixValid NeverStuck DLoopBounded FinishedOk FailStops Minimal AnchorsOk WorkOk AfterExpiryOk

CHECK_DEADLOCK FALSE
