SPECIFICATION Spec
CONSTANTS
  MaxChars = 4
INVARIANTS ShapeOk
CHECK_DEADLOCK FALSE
