SPECIFICATION Spec
CONSTANTS
  MaxLines = 2
  MaxRadius = 1
  SwapRepair = FALSE
INVARIANTS DumpInv
CHECK_DEADLOCK FALSE
