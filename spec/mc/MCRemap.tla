------------------------------- MODULE MCRemap -------------------------------
(***************************************************************************)
(* P2 for C17: for every pair of token lists within the bound (tokens of   *)
(* one, two and three bytes) the ops of the composed capture pipeline are  *)
(* remapped by the `Remapper` model; the Tier-A predicate TextA!RemapViol  *)
(* must accept the result (tags and bytes of the slice-wise expansion,     *)
(* cumulative offsets, reconstruction of both texts).                      *)
(***************************************************************************)
EXTENDS Remapper, Pipeline, TextA, TLC

CONSTANT MaxToks
VARIABLES ot, nt
vars == <<ot, nt>>
Toks == {<<97>>, <<98, 99>>, <<195, 169>>, <<226, 130, 172>>}
Init == ot \in UNION {[1..k -> Toks] : k \in 0..MaxToks} /\ nt \in UNION {[1..k -> Toks] : k \in 0..MaxToks}
Next == UNCHANGED vars
Spec == Init /\ [][Next]_vars

Model ==
  LET ops == CaptureDiff(ot, nt).ops
      oldText == FlattenSeq(ot)
      newText == FlattenSeq(nt)
      oi == Indexes(ot)
      ni == Indexes(nt)
  IN [panic |-> FALSE, old |-> oldText, new |-> newText, ops |-> ops,
      per_op |-> [i \in 1..Len(ops) |-> [remapped |-> RemapOp(oldText, oi, newText, ni, ops[i]),
                                          tokens |-> TokenSlices(ot, nt, ops[i])]]]
RemapOk == \E r \in {Model} : RemapViol(r) = {}
=============================================================================
