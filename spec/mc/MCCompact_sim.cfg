SPECIFICATION Spec
CONSTANTS
  MaxLen = 5
  Alpha = {1, 2, 3}
  SwapRepair = FALSE
  Dump = FALSE
VIEW view
INVARIANTS ValidAlways CostKept PtrOk LatestAtEnd NoEmptyAtEnd PipedNormal PipedCost ExactUnlessSwapped
CHECK_DEADLOCK FALSE
