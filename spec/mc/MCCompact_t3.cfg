SPECIFICATION Spec
CONSTANTS
  MaxLen = 3
  Alpha = {1, 2, 3}
  SwapRepair = FALSE
  Dump = FALSE
VIEW view
INVARIANTS ValidAlways CostKept PtrOk LatestAtEnd NoEmptyAtEnd PipedNormal PipedCost ExactUnlessSwapped
PROPERTY Terminates
CHECK_DEADLOCK FALSE
