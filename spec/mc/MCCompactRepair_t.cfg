SPECIFICATION Spec
CONSTANTS
  MaxLen = 4
  Alpha = {1, 2}
  SwapRepair = TRUE
  Dump = FALSE
VIEW view
INVARIANTS ValidAlways CostKept PtrOk LatestAtEnd NoEmptyAtEnd PipedNormal PipedCost ExactAtEnd
PROPERTY Terminates
CHECK_DEADLOCK FALSE
