SPECIFICATION Spec
CONSTANTS
  MaxLines = 2
  MaxRadius = 1
  SwapRepair = FALSE
INVARIANTS AcceptedOrSwapped
CHECK_DEADLOCK FALSE
