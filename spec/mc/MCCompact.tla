----------------------------- MODULE MCCompact -----------------------------
(***************************************************************************)
(* P2 configuration of the flagship Tier-B model: the environment is the   *)
(* Tier-A `Script` generator (every valid edit script over every old/new   *)
(* within the bound, one hook call per step, any interleaving of           *)
(* delete/insert runs, split equal runs), composed with the `Compact`      *)
(* step machine and, at the end, `Replace` + Capture (the capture_diff     *)
(* pipeline).  Invariants are evaluated after every clean-up step.         *)
(***************************************************************************)
EXTENDS Compact, Replace, Script, TLC, Json

CONSTANTS MaxLen, Alpha, Dump

VARIABLES old, new, oc, nc, c, phase, fedD, fedI, inp
vars == <<old, new, oc, nc, c, phase, fedD, fedI, inp>>
view == <<old, new, oc, nc, c, phase, fedD, fedI>>

SeqsUpTo(n) == UNION {[1..k -> Alpha] : k \in 0..n}

EvTuple(e) == CASE e.ev = "equal" -> <<0, e.o, e.len, e.n, e.len>>
                [] e.ev = "delete" -> <<1, e.o, e.len, e.n, 0>>
                [] e.ev = "insert" -> <<2, e.o, 0, e.n, e.len>>

Init == /\ old \in SeqsUpTo(MaxLen) /\ new \in SeqsUpTo(MaxLen)
        /\ oc = 0 /\ nc = 0 /\ c = CInit(<<>>) /\ phase = "feed" /\ fedD = 0 /\ fedI = 0 /\ inp = <<>>

GenState == [SInit(old, new, 0, Len(old), 0, Len(new)) EXCEPT !.oc = oc, !.nc = nc]

Feed == /\ phase = "feed"
        /\ \E e \in SEnabled(GenState, MaxLen) :
             IF e.ev = "finish"
             THEN /\ phase' = "clean" /\ UNCHANGED <<oc, nc, c, fedD, fedI, inp>>
             ELSE /\ c' = [c EXCEPT !.ops = Append(@, EvTuple(e))]
                  /\ inp' = IF Dump THEN Append(inp, EvTuple(e)) ELSE inp
                  /\ oc' = IF e.ev = "insert" THEN oc ELSE oc + e.len
                  /\ nc' = IF e.ev = "delete" THEN nc ELSE nc + e.len
                  /\ fedD' = IF e.ev = "delete" THEN fedD + e.len ELSE fedD
                  /\ fedI' = IF e.ev = "insert" THEN fedI + e.len ELSE fedI
                  /\ UNCHANGED phase
        /\ UNCHANGED <<old, new>>

Clean == /\ phase = "clean" /\ c.mode # "done"
         /\ c' = CStep(old, new, c)
         /\ UNCHANGED <<old, new, oc, nc, phase, fedD, fedI, inp>>

Finish == /\ phase = "clean" /\ c.mode = "done"
          /\ phase' = "done"
          /\ UNCHANGED <<old, new, oc, nc, c, fedD, fedI, inp>>

Next == Feed \/ Clean \/ Finish
Spec == Init /\ [][Next]_vars /\ WF_vars(Next)

\* ------------------------------------------------------------- properties
N == Len(old)
M == Len(new)
Cleaning == phase \in {"clean", "done"}
\* what Compact then sends through Replace into Capture
Piped == LET evs == ReplaceRun(Append(c.ops, <<4, 0, 0, 0, 0>>))
         IN SubSeq(evs, 1, Len(evs) - 1)

ValidAlways == Cleaning => ValidOps(old, new, 0, N, 0, M, c.ops)                     \* C02, C10: after every arm
CostKept == Cleaning => DelTotal(c.ops) = fedD /\ InsTotal(c.ops) = fedI               \* C10, C03
PtrOk == (phase = "clean" /\ c.mode \in {"up", "down"}) =>
            c.ptr < Len(c.ops) /\ Tag(At0(c.ops, c.ptr)) = c.pass                      \* pointer follows its op
LatestAtEnd == phase = "done" => Latest(old, new, c.ops)                              \* C09 last sentence
NoEmptyAtEnd == phase = "done" => NoEmpty(c.ops)
PipedNormal == phase = "done" => NormalForm(old, new, Piped) /\ ValidOps(old, new, 0, N, 0, M, Piped)  \* C09, C10
PipedCost == phase = "done" => DelTotal(Piped) = fedD /\ InsTotal(Piped) = fedI
ExactUnlessSwapped == phase = "done" => (ExactPositions(old, new, 0, N, 0, M, Piped) \/ c.swapped)  \* KF-1 attribution
ExactAtEnd == phase = "done" => ExactPositions(old, new, 0, N, 0, M, Piped)           \* C11 (holds only with SwapRepair)
Terminates == <>(phase = "done")

\* P3: one line per behaviour (input script, model prediction)
DumpInv == (Dump /\ phase = "done") =>
   PrintT(<<"REPLAY", ToJson([old |-> old, new |-> new, inp |-> inp, out |-> c.ops, piped |-> Piped,
                              swapped |-> c.swapped])>>)
=============================================================================
