SPECIFICATION Spec
CONSTANTS
  MaxLen = 3
  Alpha = {1, 2}
  SwapRepair = FALSE
  Dump = TRUE
INVARIANTS DumpInv
CHECK_DEADLOCK FALSE
