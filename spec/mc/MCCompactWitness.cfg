SPECIFICATION Spec
CONSTANTS
  MaxLen = 3
  Alpha = {1, 2}
  SwapRepair = FALSE
  Dump = FALSE
VIEW view
INVARIANTS ValidAlways CostKept PtrOk LatestAtEnd NoEmptyAtEnd PipedNormal PipedCost ExactAtEnd
PROPERTY Terminates
CHECK_DEADLOCK FALSE
