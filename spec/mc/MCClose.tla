------------------------------- MODULE MCClose -------------------------------
(***************************************************************************)
(* P2 for C18: for every word, pair of candidates, n and cutoff within the *)
(* bound: both pre-filters are upper bounds of the real ratio (so they     *)
(* never discard a candidate that meets the cutoff) and the model's result *)
(* is accepted by the Tier-A characterisation `CloseMatchesA`.             *)
(***************************************************************************)
EXTENDS CloseMatches, CloseMatchesA, TLC, Json

CONSTANTS MaxLen, Alpha
VARIABLES word, cands, n, cutoff
vars == <<word, cands, n, cutoff>>

SeqsUpTo(k) == UNION {[1..j -> Alpha] : j \in 0..k}
Init == /\ word \in SeqsUpTo(MaxLen)
        /\ cands \in {<<>>} \cup {<<a>> : a \in SeqsUpTo(MaxLen)} \cup {<<a, b>> : a, b \in SeqsUpTo(MaxLen)}
        /\ n \in 0..2
        /\ cutoff \in {<<0, 1>>, <<1, 2>>, <<2, 3>>, <<1, 1>>}
Next == UNCHANGED vars
Spec == Init /\ [][Next]_vars

FiltersAreUpperBounds ==
  \A i \in 1..Len(cands) : Geq(Upper(word, cands[i]), Ratio(word, cands[i])) /\ Geq(Quick(word, cands[i]), Ratio(word, cands[i]))
ResultOk ==
  CloseMatchViol([panic |-> FALSE, word |-> word, cands |-> cands, n |-> n, p |-> cutoff[1], q |-> cutoff[2],
                  result |-> CloseMatchesModel(word, cands, n, cutoff)]) = {}
DumpInv ==
   PrintT(<<"REPLAY", ToJson([kind |-> "closematch", word |-> word, cands |-> cands, n |-> n, p |-> cutoff[1], q |-> cutoff[2],
                              expected |-> CloseMatchesModel(word, cands, n, cutoff)])>>)
=============================================================================
