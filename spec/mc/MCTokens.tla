------------------------------ MODULE MCTokens ------------------------------
(***************************************************************************)
(* P2 for C06: every text of at most MaxChars characters over the class    *)
(* alphabet {LF, CR, SP(1 byte), NBSP(2), U+2028(3), a(1), e-acute(2),     *)
(* euro(3), emoji(4)} is run through the eight scanners of `Tokenizers`    *)
(* (one transition per scanner); the Tier-A shape predicates of `Tokens`   *)
(* must accept every result and the two shapes must agree.                 *)
(***************************************************************************)
EXTENDS Tokenizers, Tokens, TLC, Json

CONSTANT MaxChars
VARIABLES t, k
vars == <<t, k>>

Chars == {<<10>>, <<13>>, <<32>>, <<194, 160>>, <<226, 128, 168>>, <<97>>, <<195, 169>>, <<226, 130, 172>>,
          <<240, 159, 152, 128>>}
Kinds == <<"lines", "lines_nl", "words", "chars">>

Init == t \in UNION {[1..n -> Chars] : n \in 0..MaxChars} /\ k = 0
Next == k < 4 /\ k' = k + 1 /\ UNCHANGED t
Spec == Init /\ [][Next]_vars

IsWsC(c) == IsWs(c)
RangesStr(kind) == CASE kind = "lines" -> LinesStr(t, 1, 0, <<>>)
                     [] kind = "lines_nl" -> RunsStr(t, IsNlC, 1, <<>>)
                     [] kind = "words" -> RunsStr(t, IsWsC, 1, <<>>)
                     [] kind = "chars" -> CharsRanges(t)
RangesBytes(kind) == CASE kind = "lines" -> LinesBytes(t, 1, 0, <<>>)
                       [] kind = "lines_nl" -> RunsBytes(t, IsNlC, 1, <<>>)
                       [] kind = "words" -> RunsBytes(t, IsWsC, 1, <<>>)
                       [] kind = "chars" -> CharsRanges(t)
RecOf(kind, ranges) == [panic |-> FALSE, kind |-> kind, input |-> Bytes(t), tokens |-> Slices(t, ranges),
                        units |-> t, valid |-> [i \in 1..Len(t) |-> TRUE]]
ShapeOk == k >= 1 => LET kind == Kinds[k] IN
              /\ TokensViol(RecOf(kind, RangesStr(kind))) = {}
              /\ TokensViol(RecOf(kind, RangesBytes(kind))) = {}
              /\ RangesStr(kind) = RangesBytes(kind)
DumpInv == k >= 1 =>
   PrintT(<<"REPLAY", ToJson([kind |-> "tokens", tok |-> Kinds[k], input |-> Bytes(t),
                              expected |-> Slices(t, RangesStr(Kinds[k]))])>>)
=============================================================================
