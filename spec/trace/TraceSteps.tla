----------------------------- MODULE TraceSteps -----------------------------
(***************************************************************************)
(* Step-level conformance of the real `cleanup_diff_ops` with the Tier-B   *)
(* model `Compact`: the cfg(similar_verif) step tracer reports, for every  *)
(* iteration of the compaction loops, the arm taken, the pointer and the   *)
(* whole op list; the recorded step sequence must be exactly the step      *)
(* sequence of the model (`CLog`) from the same initial op list.  This     *)
(* binds the model to the code on inputs far beyond TLC's exhaustive       *)
(* bound.  A mismatch is reported as clause "model_drift" – it says the    *)
(* model no longer describes the code (diagnostic), not that a property    *)
(* is violated.                                                            *)
(***************************************************************************)
EXTENDS Compact, Json, IOUtils, TLC

Rec == ndJsonDeserialize(IOEnv.TRACE)

VARIABLES l, bad
vars == <<l, bad>>

Flag(case, clauses, line) ==
  IF clauses = {} THEN bad
  ELSE IF PrintT(<<"REJECT", case, clauses, line>>) THEN bad \cup {<<case, c>> : c \in clauses}
  ELSE bad

StepsViol(r) ==
  IF r.panic THEN {"panic"}
  ELSE IF Len(r.steps) = 0 THEN {}
  ELSE IF r.steps = CLog(r.old, r.new, r.steps[1][3]) THEN {} ELSE {"model_drift"}

TInit == l = 1 /\ bad = {}
TNext == /\ l <= Len(Rec)
         /\ l' = l + 1
         /\ bad' = Flag(Rec[l].case, StepsViol(Rec[l]), l)
TSpec == TInit /\ [][TNext]_vars
Report == (l = Len(Rec) + 1) => PrintT(<<"DONE", Len(Rec), Cardinality(bad)>>)
Consumed ==
  IF TLCGet("stats").diameter = Len(Rec) + 1 THEN TRUE
  ELSE PrintT(<<"STUCK_AT", TLCGet("stats").diameter>>) /\ FALSE
=============================================================================
