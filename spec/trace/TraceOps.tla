----------------------------- MODULE TraceOps ------------------------------
(***************************************************************************)
(* Trace validation of captured op lists (family O: capture_diff*,         *)
(* TextDiff::ops/ratio) against the Tier-A predicates of `Ops`.            *)
(* One TLC state per recorded call.  Clauses:                              *)
(*   C02: "valid" "apply" "identical" "ratio" "panic"                      *)
(*   C03: "minimal" "ratio_formula"                                        *)
(*   C09: "normal"                                                         *)
(*   C11: "exact" (as shipped) / "exact_rep" (swap-repair switch on: the   *)
(*        attribution run for known finding KF-1)                          *)
(*   C15: "anchors"                                                        *)
(***************************************************************************)
EXTENDS Ops, Json, IOUtils, TLC

Rec == ndJsonDeserialize(IOEnv.TRACE)

VARIABLES l, bad
vars == <<l, bad>>

Flag(case, clauses, line) ==
  IF clauses = {} THEN bad
  ELSE IF PrintT(<<"REJECT", case, clauses, line>>) THEN bad \cup {<<case, c>> : c \in clauses}
  ELSE bad

Abs(x) == IF x < 0 THEN -x ELSE x

OpsViol(r) ==
  IF r.panic THEN {"panic"}
  ELSE
  LET N == r.oe - r.os
      M == r.ne - r.ns
      oldR == Slice(r.old, r.os, r.oe)
      newR == Slice(r.new, r.ns, r.ne)
      ops == r.ops
      valid == ValidOps(r.old, r.new, r.os, r.oe, r.ns, r.ne, ops)
      same == oldR = newR
      nodl == r.fuel = -2
      \* oracles that are quadratic in the input size are only evaluated up to fixed sizes
      small == N <= 4000 /\ M <= 4000 /\ N * M <= 400000
      \* larger inputs are judged when no item repeats on either side and few items are common
      distinct == ~small /\ N <= 20000 /\ M <= 20000 /\ AllDistinct(oldR) /\ AllDistinct(newR)
                  /\ Cardinality({oldR[i] : i \in 1..N} \cap {newR[j] : j \in 1..M}) <= 300
      lcsOk == small \/ distinct
      anchOk == N + M <= 800
      L == IF small THEN LcsLen(oldR, newR) ELSE LcsLenDistinct(oldR, newR)
  IN (IF valid THEN {} ELSE {"valid"})
     \cup (IF valid /\ ~ApplyOk(r.old, r.new, r.os, r.oe, r.ns, r.ne, ops) THEN {"apply"} ELSE {})
     \cup (IF same /\ (\E i \in 1..Len(ops) : ~IsEqual(ops[i])) THEN {"identical"} ELSE {})
     \cup (IF N = 0 /\ M = 0 /\ Len(ops) > 0 THEN {"identical"} ELSE {})
     \cup (IF r.ratio_in01 /\ (r.ratio_one <=> same) THEN {} ELSE {"ratio"})
     \cup (IF lcsOk /\ nodl /\ r.alg \in {"myers", "lcs"}
              /\ (Cost(ops) # N + M - 2 * L \/ EqualTotal(ops) # L)
           THEN {"minimal"} ELSE {})
     \cup (IF lcsOk /\ nodl /\ r.alg \in {"myers", "lcs"} /\ N + M > 0
              /\ Abs(r.ratio_u * (N + M) - 2000000 * L) > N + M
           THEN {"ratio_formula"} ELSE {})
     \cup (IF NoEmpty(ops) /\ Alternate(ops) /\ (valid => Latest(r.old, r.new, ops))
           THEN {} ELSE {"normal"})
     \cup (IF ~PositionsExact(r.os, r.ns, ops) THEN {"exact"} ELSE {})
     \* the accessors old_range() / new_range() / tag() / as_tag_tuple() show the same coordinates
     \cup (IF "acc" \in DOMAIN r /\ (r.acc # ops \/ r.acc2 # ops) THEN {"accessors"} ELSE {})
     \cup (IF r.rep_panic \/ ~PositionsExact(r.os, r.ns, r.ops_rep) THEN {"exact_rep"} ELSE {})
     \* attribution of known finding KF-1: the shipped ops may differ from the ops obtained with
     \* the swap repair on only in the carried index of a Delete (its new index) or of an Insert
     \* (its old index); any other difference is not the known finding
     \cup (IF ~r.rep_panic /\
              ~(/\ Len(ops) = Len(r.ops_rep)
                /\ \A i \in 1..Len(ops) :
                     LET a == ops[i] b == r.ops_rep[i] IN
                     /\ a[1] = b[1] /\ a[3] = b[3] /\ a[5] = b[5]
                     /\ (a[1] \in {0, 3} => a = b)
                     /\ (a[1] = 1 => a[2] = b[2])
                     /\ (a[1] = 2 => a[4] = b[4]))
           THEN {"not_kf1"} ELSE {})
     \* ... and the op list handed to the compaction stage already had exact positions (a carried
     \* index that was stale before any swap is not the known finding either)
     \cup (IF "raw" \in DOMAIN r /\ ~PositionsExact(r.os, r.ns, r.raw) THEN {"raw_inexact"} ELSE {})
     \cup (IF anchOk /\ nodl /\ r.alg = "patience"
              /\ CoveredUnique(r.old, r.new, r.os, r.oe, r.ns, r.ne, ops) < AnchorOptimum(oldR, newR)
           THEN {"anchors"} ELSE {})

TInit == l = 1 /\ bad = {}
TNext == /\ l <= Len(Rec)
         /\ l' = l + 1
         /\ bad' = Flag(Rec[l].case, OpsViol(Rec[l]), l)
TSpec == TInit /\ [][TNext]_vars

Report == (l = Len(Rec) + 1) => PrintT(<<"DONE", Len(Rec), Cardinality(bad)>>)
Consumed ==
  IF TLCGet("stats").diameter = Len(Rec) + 1 THEN TRUE
  ELSE PrintT(<<"STUCK_AT", TLCGet("stats").diameter>>) /\ FALSE
=============================================================================
