---------------------------- MODULE TraceBuilder ----------------------------
(***************************************************************************)
(* Event-by-event trace validation of builder call histories against the   *)
(* state machines of `Builder`: every recorded setter call is a transition *)
(* of the specification state; the final diff / render event is judged in  *)
(* the state reached.                                                      *)
(***************************************************************************)
EXTENDS Builder, Json, IOUtils, TLC, FiniteSets

Rec == ndJsonDeserialize(IOEnv.TRACE)
VARIABLES l, cfg, ud, cur, bad
vars == <<l, cfg, ud, cur, bad>>

Flag(case, clauses, line) ==
  IF clauses = {} THEN bad
  ELSE IF PrintT(<<"REJECT", case, clauses, line>>) THEN bad \cup {<<case, c>> : c \in clauses}
  ELSE bad

TInit == l = 1 /\ cfg = CfgInit /\ ud = UInit /\ cur = 0 /\ bad = {}
TNext ==
  /\ l <= Len(Rec) /\ l' = l + 1
  /\ LET r == Rec[l] IN
     CASE r.ev = "bstart" -> cfg' = CfgInit /\ ud' = UInit /\ cur' = r.case /\ UNCHANGED bad
       [] r.ev = "bcall" -> cfg' = CfgCall(cfg, r.name, r.arg) /\ UNCHANGED <<ud, cur, bad>>
       [] r.ev = "ucall" -> ud' = UCall(ud, r.name, r.arg) /\ UNCHANGED <<cfg, cur, bad>>
       [] r.ev = "bdiff" -> bad' = Flag(cur, IF r.panic THEN {"panic"} ELSE DiffViol(cfg, r), l) /\ UNCHANGED <<cfg, ud, cur>>
       [] r.ev = "urender" -> bad' = Flag(cur, IF r.panic THEN {"panic"} ELSE RenderViol(ud, r), l) /\ UNCHANGED <<cfg, ud, cur>>
TSpec == TInit /\ [][TNext]_vars
Report == (l = Len(Rec) + 1) => PrintT(<<"DONE", Len(Rec), Cardinality(bad)>>)
Consumed ==
  IF TLCGet("stats").diameter = Len(Rec) + 1 THEN TRUE
  ELSE PrintT(<<"STUCK_AT", TLCGet("stats").diameter>>) /\ FALSE
=============================================================================
