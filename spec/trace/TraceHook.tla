----------------------------- MODULE TraceHook -----------------------------
(***************************************************************************)
(* Trace validation of hook event streams recorded from the real code      *)
(* (families H and A) against the Tier-A specification `Script`.           *)
(*                                                                         *)
(* One TLC state per recorded line.  The monitor is total: a violated      *)
(* clause is recorded as <<case, clause>> in `bad` and printed; checking   *)
(* continues with the rest of the trace.                                   *)
(*                                                                         *)
(* run: TRACE=file.ndjson tlc -workers 1 -config TraceHook.cfg TraceHook   *)
(***************************************************************************)
EXTENDS Script, Oracles, Work, Json, IOUtils, TLC

Rec == ndJsonDeserialize(IOEnv.TRACE)

VARIABLES l,     \* next line
          sl,    \* line of the current case's start record (0 = between cases)
          s,     \* Script state of the current case
          pr,    \* deadline probes of the current case
          bad    \* set of <<case, clause>>
vars == <<l, sl, s, pr, bad>>

NoProbe == [n |-> 0, exp |-> FALSE, x |-> -1, mono |-> TRUE, last |-> 0, gap |-> 0]

TInit == l = 1 /\ sl = 0 /\ s = <<>> /\ pr = NoProbe /\ bad = {}

HookEvs == {"equal", "delete", "insert", "replace", "finish"}

Flag(case, clauses, line) ==
  IF clauses = {} THEN bad
  ELSE IF PrintT(<<"REJECT", case, clauses, line>>) THEN bad \cup {<<case, c>> : c \in clauses}
  ELSE bad

(* Behind the compaction adapter the carried indices are the subject of   *)
(* C11 (and of known finding KF-1), not of the hook-protocol properties:   *)
(* C10 demands exact carried indices only through Replace alone.           *)
NotDemanded(m) == IF m.stack \in {"compact", "compact_replace", "compact_replace_nr", "compact_replace_ref",
                                   "replace_over_compact"}
                  THEN {"carried"} ELSE {}

(* Adapters fed with a script (family A, C10), judged per delivered call:   *)
(* through Replace alone the carried indices are exactly the cursors; and   *)
(* through both adapters over a sink that overrides `replace` every change  *)
(* run arrives as ONE call (the normal form of C09 at the hook level).      *)
AdapterViol(m, st, e) ==
  IF "in" \notin DOMAIN m \/ st.broken \/ e.ev \notin {"delete", "insert", "replace"} THEN {}
  ELSE (IF m.stack \in {"replace", "replace_ref"}
           /\ ((e.ev = "delete" /\ e.n # st.nc) \/ (e.ev = "insert" /\ e.o # st.oc))
        THEN {"carried_exact"} ELSE {})
       \cup (IF m.stack \in {"compact_replace", "compact_replace_ref"}
                /\ (st.oc # st.runO \/ st.nc # st.runN)
             THEN {"run_split"} ELSE {})

(* clauses decided when the call returns                                    *)
FinalViol(m, st, p, r) ==
  LET N == m.oe - m.os
      M == m.ne - m.ns
      oldR == Slice(m.old, m.os, m.oe)
      newR == Slice(m.new, m.ns, m.ne)
      clean == ~st.failed /\ ~st.broken /\ r.ok
      \* oracles that are quadratic in the input size are only evaluated up to fixed sizes
      small == N <= 4000 /\ M <= 4000 /\ N * M <= 400000
      \* larger inputs are judged when no item repeats on either side and few items are common
      distinct == ~small /\ N <= 20000 /\ M <= 20000 /\ AllDistinct(oldR) /\ AllDistinct(newR)
                  /\ Cardinality({oldR[i] : i \in 1..N} \cap {newR[j] : j \in 1..M}) <= 300
      lcsOk == small \/ distinct
      L == IF small THEN LcsLen(oldR, newR) ELSE LcsLenDistinct(oldR, newR)
      anchOk == N + M <= 800
      D == st.dels + st.inss
      covered == SumSeq([i \in 1..Len(st.segs) |->
                   Cardinality({j \in 0..(st.segs[i][3] - 1) :
                       At(m.old, st.segs[i][1] + j) \in CommonUnique(oldR, newR)})])
  IN SRetViol(st, r.ok, r.err, m.stack \notin {"nofinish", "replace_nofinish", "replace_nofinish_nr"})
     \* C03 is a statement about the reported totals: it is judged whenever the call returned
     \* normally (no injected error), whether or not the stream is a valid script
     \cup (IF ~st.failed /\ r.ok /\ lcsOk /\ m.fuel = -2 /\ m.alg \in {"myers", "lcs"}
              /\ (st.rdels + st.rinss # N + M - 2 * L \/ st.reqs # L)
           THEN {"minimal"} ELSE {})
     \cup (IF clean /\ anchOk /\ m.fuel = -2 /\ m.alg = "patience"
              /\ covered < AnchorOptimum(oldR, newR)
           THEN {"anchors"} ELSE {})
     \cup (IF clean /\ m.fuel = -2 /\ m.stack = "none" /\ m.alg \in {"myers", "patience"}
              /\ ~WorkBound(N, M, D, r.cmps)
           THEN {"work"} ELSE {})
     \cup (IF clean /\ m.stack = "none" /\ p.x >= 0
              /\ ~AfterExpiryBound(N, M, p.x, r.cmps)
           THEN {"afterexpiry"} ELSE {})
     \cup (IF p.mono THEN {} ELSE {"probe_mono"})
     \* time can run out at any moment, not only at a check: with a deadline present the work
     \* between two consecutive checks, and from the last check to the return, stays a small
     \* multiple of N+M (otherwise expiry is noticed arbitrarily late)
     \cup (IF clean /\ m.stack = "none" /\ m.fuel >= -1 /\ p.n > 0
              /\ ~GapBound(N, M, IF r.cmps - p.last > p.gap THEN r.cmps - p.last ELSE p.gap)
           THEN {"probe_gap"} ELSE {})
     \* adapters fed with a script (family A, C10): totals preserved, input itself valid
     \cup (IF "in" \in DOMAIN m
           THEN LET inEvs == [i \in 1..Len(m.in) |-> TupleEvent(m.in[i])]
                    ri == SRun(m.old, m.new, m.os, m.oe, m.ns, m.ne, inEvs)
                IN (IF ri.viol = {} /\ Complete(ri.s) THEN {} ELSE {"input_invalid"})
                   \cup (IF clean /\ (st.dels # ri.s.dels \/ st.inss # ri.s.inss) THEN {"totals"} ELSE {})
           ELSE {})

(* generic comparison records written by the harness:                     *)
(*   same:   the two recorded results must be equal                         *)
(*   expand: stream b must be stream a with every replace expanded into     *)
(*           delete + insert (a hook that does not override replace)        *)
(*   drop4:  stream b must be stream a without its finish calls             *)
ExpandT(t) == IF t[1] = 3 THEN <<<<1, t[2], t[3], t[4], 0>>, <<2, t[2], 0, t[4], t[5]>>>> ELSE <<t>>
CmpViol(r) ==
  CASE r.ev = "same" -> IF r.a = r.b THEN {} ELSE {r.clause}
    [] r.ev = "expand" -> IF FlattenSeq([i \in 1..Len(r.a) |-> ExpandT(r.a[i])]) = r.b THEN {} ELSE {r.clause}
    [] r.ev = "drop4" -> IF SelectSeq(r.a, LAMBDA t : t[1] # 4) = r.b THEN {} ELSE {r.clause}

(* the sub-range run must be the whole-slice run shifted by the range starts *)
Shifted(t, os, ns) == IF t[1] = 4 THEN t ELSE <<t[1], t[2] + os, t[3], t[4] + ns, t[5]>>
ShiftViol(r) ==
  IF r.whole_ok /\ r.sub_ok
     /\ r.sub # [i \in 1..Len(r.whole) |-> Shifted(r.whole[i], r.os, r.ns)]
  THEN {"shift"} ELSE {}

TNext ==
  /\ l <= Len(Rec)
  /\ l' = l + 1
  /\ LET r == Rec[l] IN
     CASE r.ev = "start" ->
            /\ sl' = l
            /\ s' = SInit(r.old, r.new, r.os, r.oe, r.ns, r.ne)
            /\ pr' = NoProbe
            /\ bad' = Flag(IF sl = 0 THEN 0 ELSE Rec[sl].case,
                           IF sl = 0 THEN {} ELSE {"noreturn"}, l)
       [] r.ev \in HookEvs ->
            /\ bad' = Flag(Rec[sl].case, (SViol(s, r) \ NotDemanded(Rec[sl])) \cup AdapterViol(Rec[sl], s, r), l)
            /\ s' = SStep(s, r)
            /\ UNCHANGED <<sl, pr>>
       [] r.ev = "probe" ->
            /\ pr' = [n |-> pr.n + 1,
                      exp |-> r.exp,
                      x |-> IF r.exp /\ pr.x < 0 THEN r.cmps ELSE pr.x,
                      mono |-> pr.mono /\ (pr.exp => r.exp),
                      \* element comparisons since the previous deadline check (largest so far)
                      last |-> r.cmps,
                      gap |-> IF r.cmps - pr.last > pr.gap THEN r.cmps - pr.last ELSE pr.gap]
            /\ UNCHANGED <<sl, s, bad>>
       [] r.ev = "ret" ->
            /\ bad' = Flag(r.case, FinalViol(Rec[sl], s, pr, r) \ NotDemanded(Rec[sl]), l)
            /\ sl' = 0 /\ s' = <<>> /\ pr' = NoProbe
       [] r.ev = "panic" ->
            /\ bad' = Flag(r.case, {"panic"}, l)
            /\ sl' = 0 /\ s' = <<>> /\ pr' = NoProbe
       [] r.ev = "shiftcmp" ->
            /\ bad' = Flag(r.case, ShiftViol(r), l)
            /\ UNCHANGED <<sl, s, pr>>
       [] r.ev = "drift" ->       \* model-vs-code comparison of a replayed behaviour: informational
            UNCHANGED <<sl, s, pr, bad>>
       [] r.ev \in {"same", "expand", "drop4"} ->
            /\ bad' = Flag(r.case, CmpViol(r), l)
            /\ UNCHANGED <<sl, s, pr>>

TSpec == TInit /\ [][TNext]_vars

Report == (l = Len(Rec) + 1) => PrintT(<<"DONE", Len(Rec), Cardinality(bad)>>)

Consumed ==
  IF TLCGet("stats").diameter = Len(Rec) + 1 THEN TRUE
  ELSE PrintT(<<"STUCK_AT", TLCGet("stats").diameter, Rec[TLCGet("stats").diameter]>>) /\ FALSE
=============================================================================
