----------------------------- MODULE TraceHook -----------------------------
(***************************************************************************)
(* Trace validation of hook event streams recorded from the real code      *)
(* (families H and A) against the Tier-A specification `Script`.           *)
(*                                                                         *)
(* One TLC state per recorded line.  The monitor is total: a violated      *)
(* clause is recorded as <<case, clause>> in `bad` and printed; checking   *)
(* continues with the rest of the trace.                                   *)
(*                                                                         *)
(* run: TRACE=file.ndjson tlc -workers 1 -config TraceHook.cfg TraceHook   *)
(***************************************************************************)
EXTENDS Script, Oracles, Json, IOUtils, TLC

Rec == ndJsonDeserialize(IOEnv.TRACE)

VARIABLES l,     \* next line
          sl,    \* line of the current case's start record (0 = between cases)
          s,     \* Script state of the current case
          pr,    \* deadline probes of the current case
          bad    \* set of <<case, clause>>
vars == <<l, sl, s, pr, bad>>

NoProbe == [n |-> 0, exp |-> FALSE, x |-> -1, mono |-> TRUE]

TInit == l = 1 /\ sl = 0 /\ s = <<>> /\ pr = NoProbe /\ bad = {}

HookEvs == {"equal", "delete", "insert", "replace", "finish"}

Flag(case, clauses, line) ==
  IF clauses = {} THEN bad
  ELSE IF PrintT(<<"REJECT", case, clauses, line>>) THEN bad \cup {<<case, c>> : c \in clauses}
  ELSE bad

\* constants of the two work bounds (DESIGN.md C07, C19)
K == 4
K2 == 4

(* clauses decided when the call returns                                    *)
FinalViol(m, st, p, r) ==
  LET N == m.oe - m.os
      M == m.ne - m.ns
      oldR == Slice(m.old, m.os, m.oe)
      newR == Slice(m.new, m.ns, m.ne)
      clean == ~st.failed /\ ~st.broken /\ r.ok
      D == st.dels + st.inss
      covered == SumSeq([i \in 1..Len(st.segs) |->
                   Cardinality({j \in 0..(st.segs[i][3] - 1) :
                       At(m.old, st.segs[i][1] + j) \in CommonUnique(oldR, newR)})])
  IN SRetViol(st, r.ok, r.err, m.stack # "nofinish")
     \cup (IF clean /\ m.fuel = -2 /\ m.alg \in {"myers", "lcs"}
              /\ D # N + M - 2 * LcsLen(oldR, newR)
           THEN {"minimal"} ELSE {})
     \cup (IF clean /\ m.fuel = -2 /\ m.alg = "patience"
              /\ covered < AnchorOptimum(oldR, newR)
           THEN {"anchors"} ELSE {})
     \cup (IF clean /\ m.fuel = -2 /\ m.stack = "none" /\ m.alg \in {"myers", "patience"}
              /\ r.cmps > K * (N + M + 1) * (D + 1)
           THEN {"work"} ELSE {})
     \cup (IF clean /\ m.stack = "none" /\ p.x >= 0
              /\ r.cmps - p.x > K2 * (N + M + 1)
           THEN {"afterexpiry"} ELSE {})
     \cup (IF p.mono THEN {} ELSE {"probe_mono"})

(* the sub-range run must be the whole-slice run shifted by the range starts *)
Shifted(t, os, ns) == IF t[1] = 4 THEN t ELSE <<t[1], t[2] + os, t[3], t[4] + ns, t[5]>>
ShiftViol(r) ==
  IF r.whole_ok /\ r.sub_ok
     /\ r.sub # [i \in 1..Len(r.whole) |-> Shifted(r.whole[i], r.os, r.ns)]
  THEN {"shift"} ELSE {}

TNext ==
  /\ l <= Len(Rec)
  /\ l' = l + 1
  /\ LET r == Rec[l] IN
     CASE r.ev = "start" ->
            /\ sl' = l
            /\ s' = SInit(r.old, r.new, r.os, r.oe, r.ns, r.ne)
            /\ pr' = NoProbe
            /\ bad' = Flag(IF sl = 0 THEN 0 ELSE Rec[sl].case,
                           IF sl = 0 THEN {} ELSE {"noreturn"}, l)
       [] r.ev \in HookEvs ->
            /\ bad' = Flag(Rec[sl].case, SViol(s, r), l)
            /\ s' = SStep(s, r)
            /\ UNCHANGED <<sl, pr>>
       [] r.ev = "probe" ->
            /\ pr' = [n |-> pr.n + 1,
                      exp |-> r.exp,
                      x |-> IF r.exp /\ pr.x < 0 THEN r.cmps ELSE pr.x,
                      mono |-> pr.mono /\ (pr.exp => r.exp)]
            /\ UNCHANGED <<sl, s, bad>>
       [] r.ev = "ret" ->
            /\ bad' = Flag(r.case, FinalViol(Rec[sl], s, pr, r), l)
            /\ sl' = 0 /\ s' = <<>> /\ pr' = NoProbe
       [] r.ev = "panic" ->
            /\ bad' = Flag(r.case, {"panic"}, l)
            /\ sl' = 0 /\ s' = <<>> /\ pr' = NoProbe
       [] r.ev = "shiftcmp" ->
            /\ bad' = Flag(r.case, ShiftViol(r), l)
            /\ UNCHANGED <<sl, s, pr>>

TSpec == TInit /\ [][TNext]_vars

Report == (l = Len(Rec) + 1) => PrintT(<<"DONE", Len(Rec), Cardinality(bad)>>)

Consumed ==
  IF TLCGet("stats").diameter = Len(Rec) + 1 THEN TRUE
  ELSE PrintT(<<"STUCK_AT", TLCGet("stats").diameter, Rec[TLCGet("stats").diameter]>>) /\ FALSE
=============================================================================
