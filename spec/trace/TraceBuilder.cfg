SPECIFICATION TSpec
INVARIANT Report
POSTCONDITION Consumed
CHECK_DEADLOCK FALSE
