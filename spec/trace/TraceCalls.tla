----------------------------- MODULE TraceCalls -----------------------------
(***************************************************************************)
(* Trace validation of call records (pure functions of the public API:     *)
(* one record per call with its arguments and its full result).  In a      *)
(* sequential library the linearisation point of a call is its return and  *)
(* the API exposes the whole abstract state, so no hook is needed.  Each   *)
(* record type is judged by the Tier-A module of its property:             *)
(*    Call_X(args, result) == result \in Allowed_X(args)                   *)
(* One TLC state per record; total monitor as in TraceHook.                *)
(***************************************************************************)
EXTENDS Oracles, Work, Grouping, Expansion, Tokens, TextA, CloseMatchesA, InlineA, Patch, Json, IOUtils, TLC

Rec == ndJsonDeserialize(IOEnv.TRACE)

VARIABLES l, bad
vars == <<l, bad>>

Flag(case, clauses, line) ==
  IF clauses = {} THEN bad
  ELSE IF PrintT(<<"REJECT", case, clauses, line>>) THEN bad \cup {<<case, c>> : c \in clauses}
  ELSE bad

(* C19: comparison count against the work bound; D is the shortest edit    *)
(* distance computed by the LCS oracle when the sequences are recorded     *)
(* (Myers), else the size of the script the call reported.                 *)
WorkViol(r) ==
  IF r.panic THEN {"panic"}
  ELSE LET D == IF r.has_seq /\ r.alg = "myers"
                THEN r.n + r.m - 2 * LcsLen(r.old, r.new) ELSE r.d
       IN IF WorkBound(r.n, r.m, D, r.cmps) THEN {} ELSE {"work"}

CallViol(r) ==
  CASE r.ev = "work" -> WorkViol(r)
    [] r.ev = "group" -> GroupViol(r)
    [] r.ev = "expand1" -> Expand1Viol(r)
    [] r.ev = "expand_all" -> ExpandAllViol(r)
    [] r.ev = "tokens" -> TokensViol(r)
    [] r.ev = "textchanges" -> TextChangesViol(r)
    [] r.ev = "textchanges_tok" -> TextChangesTokViol(r)
    [] r.ev = "textops" -> TextOpsViol(r)
    [] r.ev = "identify" -> IdentifyViol(r)
    [] r.ev = "remap" -> RemapViol(r)
    [] r.ev = "helper" -> HelperViol(r)
    [] r.ev = "determ" -> DetermViol(r)
    [] r.ev = "closematch" -> CloseMatchViol(r)
    [] r.ev = "inline" -> InlineViol(r)
    [] r.ev = "udiff" -> UdiffViol(r)
    [] r.ev = "udiff_huge" -> HugeUdiffViol(r)
    [] r.ev = "same" -> IF r.a = r.b THEN {} ELSE {r.clause}

TInit == l = 1 /\ bad = {}
TNext == /\ l <= Len(Rec)
         /\ l' = l + 1
         /\ bad' = Flag(Rec[l].case, CallViol(Rec[l]), l)
TSpec == TInit /\ [][TNext]_vars

Report == (l = Len(Rec) + 1) => PrintT(<<"DONE", Len(Rec), Cardinality(bad)>>)
Consumed ==
  IF TLCGet("stats").diameter = Len(Rec) + 1 THEN TRUE
  ELSE PrintT(<<"STUCK_AT", TLCGet("stats").diameter>>) /\ FALSE
=============================================================================
