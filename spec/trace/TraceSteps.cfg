SPECIFICATION TSpec
CONSTANT SwapRepair = FALSE
INVARIANT Report
POSTCONDITION Consumed
CHECK_DEADLOCK FALSE
