----------------------------- MODULE ReplaceInd -----------------------------
(***************************************************************************)
(* Unbounded-length argument for the index arithmetic of the `Replace`     *)
(* adapter (C10: through Replace alone a valid script stays valid, keeps   *)
(* its deleted / inserted totals and its carried indices exact).           *)
(*                                                                         *)
(* The state consists of integers only: the cursors of the *input* script  *)
(* (ioc, inc: a valid script is abstracted to its cursor arithmetic - any  *)
(* positive lengths, exact carried indices; element equality plays no role *)
(* in Replace), the three pending triples of Replace, and the cursors of   *)
(* the *emitted* script (eoc, enc).  `outOk` records that every emitted    *)
(* call started exactly at the emitted cursors (and a lone delete / insert *)
(* carried the exact other-side position).                                 *)
(*                                                                         *)
(* Apalache checks that IndInv is inductive:                               *)
(*    apalache-mc check --init=Init    --inv=IndInv --length=0 ReplaceInd  *)
(*    apalache-mc check --init=IndInit --inv=IndInv --length=1 ReplaceInd  *)
(* and IndInv => Safety is immediate (outOk is a conjunct).  The same      *)
(* transition logic is `RStep` of spec/impl/Replace.tla; TLC checks the    *)
(* two formulations agree on all bounded runs (MCReplaceEq).               *)
(***************************************************************************)
EXTENDS Integers

VARIABLES
  \* @type: Int;
  ioc,
  \* @type: Int;
  inc,
  \* @type: Bool;
  hasDel,
  \* @type: Int;
  delO,
  \* @type: Int;
  delLen,
  \* @type: Int;
  delN,
  \* @type: Bool;
  hasIns,
  \* @type: Int;
  insO,
  \* @type: Int;
  insN,
  \* @type: Int;
  insLen,
  \* @type: Bool;
  hasEq,
  \* @type: Int;
  eqO,
  \* @type: Int;
  eqN,
  \* @type: Int;
  eqLen,
  \* @type: Int;
  eoc,
  \* @type: Int;
  enc,
  \* @type: Bool;
  outOk,
  \* @type: Bool;
  finished

Init ==
  /\ ioc = 0 /\ inc = 0 /\ eoc = 0 /\ enc = 0 /\ outOk = TRUE /\ finished = FALSE
  /\ hasDel = FALSE /\ delO = 0 /\ delLen = 0 /\ delN = 0
  /\ hasIns = FALSE /\ insO = 0 /\ insN = 0 /\ insLen = 0
  /\ hasEq = FALSE /\ eqO = 0 /\ eqN = 0 /\ eqLen = 0

\* flush_del_ins: emitted call(s) checked against the emitted cursors
FlushDelInsOk ==
  IF hasDel THEN (IF hasIns THEN delO = eoc /\ insN = enc
                  ELSE delO = eoc /\ delN = enc)
  ELSE (IF hasIns THEN insO = eoc /\ insN = enc ELSE TRUE)
EocAfterFlushDI == eoc + (IF hasDel THEN delLen ELSE 0)
EncAfterFlushDI == enc + (IF hasIns THEN insLen ELSE 0)

\* Replace::equal(ioc, inc, len)
InEqual(len) ==
  /\ ~finished /\ len > 0
  /\ outOk' = (outOk /\ FlushDelInsOk)
  /\ eoc' = EocAfterFlushDI /\ enc' = EncAfterFlushDI
  /\ hasDel' = FALSE /\ hasIns' = FALSE
  /\ hasEq' = TRUE
  /\ eqO' = (IF hasEq THEN eqO ELSE ioc) /\ eqN' = (IF hasEq THEN eqN ELSE inc)
  /\ eqLen' = (IF hasEq THEN eqLen + len ELSE len)
  /\ ioc' = ioc + len /\ inc' = inc + len
  /\ UNCHANGED <<delO, delLen, delN, insO, insN, insLen, finished>>

\* flush_eq
FlushEqOk == hasEq => (eqO = eoc /\ eqN = enc)
EocAfterFlushEq == eoc + (IF hasEq THEN eqLen ELSE 0)
EncAfterFlushEq == enc + (IF hasEq THEN eqLen ELSE 0)

\* Replace::delete(ioc, len, inc)
InDelete(len) ==
  /\ ~finished /\ len > 0
  /\ outOk' = (outOk /\ FlushEqOk)
  /\ eoc' = EocAfterFlushEq /\ enc' = EncAfterFlushEq
  /\ hasEq' = FALSE
  /\ hasDel' = TRUE
  /\ delO' = (IF hasDel THEN delO ELSE ioc)
  /\ delN' = (IF hasDel THEN delN ELSE inc)
  /\ delLen' = (IF hasDel THEN delLen + len ELSE len)
  /\ ioc' = ioc + len
  /\ UNCHANGED <<inc, hasIns, insO, insN, insLen, eqO, eqN, eqLen, finished>>

\* Replace::insert(ioc, inc, len)
InInsert(len) ==
  /\ ~finished /\ len > 0
  /\ outOk' = (outOk /\ FlushEqOk)
  /\ eoc' = EocAfterFlushEq /\ enc' = EncAfterFlushEq
  /\ hasEq' = FALSE
  /\ hasIns' = TRUE
  /\ insO' = (IF hasIns THEN insO ELSE ioc)
  /\ insN' = (IF hasIns THEN insN ELSE inc)
  /\ insLen' = (IF hasIns THEN insLen + len ELSE len)
  /\ inc' = inc + len
  /\ UNCHANGED <<ioc, hasDel, delO, delLen, delN, eqO, eqN, eqLen, finished>>

\* Replace::finish: flush_eq, flush_del_ins, finish
InFinish ==
  /\ ~finished
  /\ outOk' = (outOk /\ FlushEqOk /\ FlushDelInsOk)
  /\ eoc' = eoc + (IF hasEq THEN eqLen ELSE 0) + (IF hasDel THEN delLen ELSE 0)
  /\ enc' = enc + (IF hasEq THEN eqLen ELSE 0) + (IF hasIns THEN insLen ELSE 0)
  /\ hasEq' = FALSE /\ hasDel' = FALSE /\ hasIns' = FALSE /\ finished' = TRUE
  /\ UNCHANGED <<ioc, inc, delO, delLen, delN, insO, insN, insLen, eqO, eqN, eqLen>>

Next ==
  \/ \E len \in 1..1000000 : InEqual(len) \/ InDelete(len) \/ InInsert(len)
  \/ InFinish
  \/ (finished /\ UNCHANGED <<ioc, inc, hasDel, delO, delLen, delN, hasIns, insO, insN, insLen,
                              hasEq, eqO, eqN, eqLen, eoc, enc, outOk, finished>>)

\* ---------------------------------------------------------------- invariants
Pend(b, n) == IF b THEN n ELSE 0
IndInv ==
  /\ outOk
  /\ ioc >= 0 /\ inc >= 0 /\ eoc >= 0 /\ enc >= 0
  /\ eoc + Pend(hasEq, eqLen) + Pend(hasDel, delLen) = ioc        \* nothing lost, nothing repeated (old side)
  /\ enc + Pend(hasEq, eqLen) + Pend(hasIns, insLen) = inc        \* (new side)
  /\ (hasEq => ~hasDel /\ ~hasIns /\ eqO = eoc /\ eqN = enc /\ eqLen > 0)
  /\ (hasDel => delO = eoc /\ delLen > 0 /\ (~hasIns => delN = enc))
  /\ (hasIns => insN = enc /\ insLen > 0 /\ (~hasDel => insO = eoc))
  /\ (finished => ~hasEq /\ ~hasDel /\ ~hasIns)

\* the initial states of the inductive step: any state satisfying the invariant
IndInit ==
  /\ ioc \in Int /\ inc \in Int /\ eoc \in Int /\ enc \in Int
  /\ delO \in Int /\ delLen \in Int /\ delN \in Int
  /\ insO \in Int /\ insN \in Int /\ insLen \in Int
  /\ eqO \in Int /\ eqN \in Int /\ eqLen \in Int
  /\ hasDel \in BOOLEAN /\ hasIns \in BOOLEAN /\ hasEq \in BOOLEAN
  /\ outOk \in BOOLEAN /\ finished \in BOOLEAN
  /\ IndInv

\* what C10 needs: every emitted call was well placed, and at the end everything was emitted
Safety == outOk /\ (finished => eoc = ioc /\ enc = inc)
=============================================================================
