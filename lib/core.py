"""Engine shared by all property checks: harness build, drivers, TLC runs
(model checking and trace validation), verdicts, evidence, replays."""
import fcntl
import json
import os
import re
import shutil
import subprocess
import sys
import time
from concurrent.futures import ThreadPoolExecutor
from pathlib import Path

VERIF = Path(__file__).resolve().parent.parent
WORK = VERIF / "work"
CACHE = WORK / "cache"          # model-checking results / behaviour dumps (independent of the code)
HARNESS = VERIF / "harness"
SPEC = VERIF / "spec"
REPLAYS = VERIF / "replays"
EVIDENCE = VERIF / "evidence"
# Development aid: VERIF_REPO=<worktree> runs the very same checks against another checkout of
# mitsuhiko/similar (a scratch worktree with a seeded or benign change) without touching /repo,
# /verif/evidence or /verif/replays.  The registered commands never set it.
ALT_REPO = os.environ.get("VERIF_REPO")
if ALT_REPO:
    import hashlib as _h
    _tag = _h.sha1(ALT_REPO.encode()).hexdigest()[:8]
    WORK = VERIF / "work" / ("alt_" + _tag)
    HARNESS = WORK / "harness"
    REPLAYS = WORK / "replays"
    EVIDENCE = WORK / "evidence"
JAVA_CP = "/opt/veriftools/tla/tla2tools.jar:/opt/veriftools/tla/CommunityModules-deps.jar"
TLA_LIB = ":".join(str(SPEC / d) for d in ("abstract", "impl", "trace", "mc", "proof"))
NCPU = os.cpu_count() or 4


class ToolError(Exception):
    pass


def log(*a):
    print(*a, file=sys.stderr, flush=True)


# --------------------------------------------------------------------------- harness

def sv_path(nounicode=False):
    return HARNESS / ("target-nounicode" if nounicode else "target") / "release" / "sv"


def _prepare_alt_harness():
    src = VERIF / "harness"
    HARNESS.mkdir(parents=True, exist_ok=True)
    shutil.copytree(src / "src", HARNESS / "src", dirs_exist_ok=True)
    shutil.copytree(src / ".cargo", HARNESS / ".cargo", dirs_exist_ok=True)
    shutil.copy(src / "Cargo.lock", HARNESS / "Cargo.lock")
    toml = (src / "Cargo.toml").read_text().replace('path = "/repo"', f'path = "{ALT_REPO}"')
    (HARNESS / "Cargo.toml").write_text(toml)


def build_harness(nounicode=False):
    """(Re)build the harness against the current /repo working tree."""
    if ALT_REPO:
        _prepare_alt_harness()
    HARNESS.mkdir(exist_ok=True)
    lock = open(HARNESS / ".build.lock", "w")
    fcntl.flock(lock, fcntl.LOCK_EX)
    try:
        env = dict(os.environ, CARGO_NET_OFFLINE="true")
        cmd = ["cargo", "build", "--release", "--offline", "--quiet"]
        if nounicode:
            cmd += ["--no-default-features", "--target-dir", "target-nounicode"]
        t0 = time.time()
        p = subprocess.run(cmd, cwd=HARNESS, env=env, capture_output=True, text=True)
        if p.returncode != 0:
            raise ToolError("harness build failed:\n" + p.stderr[-4000:])
        log(f"[build] harness{' (no unicode)' if nounicode else ''} ok in {time.time()-t0:.1f}s")
    finally:
        fcntl.flock(lock, fcntl.LOCK_UN)
        lock.close()
    return sv_path(nounicode)


def run_sv(args, timeout=1800, nounicode=False):
    """Run the harness.  A harness that dies or hangs is *data* (the code under
    test aborted or did not return): returns (rc, stderr) and lets the caller
    turn the last started case into a rejected case."""
    cmd = [str(sv_path(nounicode))] + [str(a) for a in args]
    try:
        p = subprocess.run(cmd, capture_output=True, text=True, timeout=timeout)
        return p.returncode, p.stderr
    except subprocess.TimeoutExpired as e:
        return -9, "timeout after %ss\n%s" % (timeout, (e.stderr or b"")[-2000:] if e.stderr else "")


# --------------------------------------------------------------------------- TLC

def java_cmd(xmx="3g", deque=True):
    # TLC leaves an (empty) tlc-<n> directory per run in java.io.tmpdir: keep them under work/
    jtmp = WORK / "jtmp" / str(os.getpid())
    jtmp.mkdir(parents=True, exist_ok=True)
    cmd = ["java", "-XX:+UseParallelGC", "-Xss1g", "-Xmx" + xmx,
           "-DTLA-Library=" + TLA_LIB, "-Djava.io.tmpdir=" + str(jtmp)]
    if deque:
        cmd.append("-Dtlc2.tool.queue.IStateQueue=StateDeque")
    cmd += ["-cp", JAVA_CP, "tlc2.TLC"]
    return cmd


EV_RE = re.compile(r'"ev":"(\w+)"')
REJ_RE = re.compile(r'<<"REJECT", (-?\d+), \{(.*?)\}, (\d+)>>')
DONE_RE = re.compile(r'<<"DONE", (\d+), (\d+)>>')
INFO_RE = re.compile(r'<<"INFO", (.*)>>')


def is_case_start(line):
    m = EV_RE.search(line)
    if not m:
        return False
    return m.group(1) not in ("ret", "panic", "probe", "equal", "delete", "insert",
                              "replace", "finish", "step", "drift", "bcall", "ucall", "bdiff", "urender")


def split_trace(path, outdir, max_lines):
    """Split an ndjson trace at case boundaries into chunks of <= max_lines lines.
    Returns [(chunk_path, first_global_line_number)]."""
    outdir.mkdir(parents=True, exist_ok=True)
    chunks = []
    cur = []
    cur_first = 1
    n = 0
    with open(path) as f:
        for line in f:
            n += 1
            if len(cur) >= max_lines and is_case_start(line):
                chunks.append((cur, cur_first))
                cur = []
                cur_first = n
            cur.append(line)
    if cur:
        chunks.append((cur, cur_first))
    res = []
    for i, (lines, first) in enumerate(chunks):
        p = outdir / f"chunk{i:04d}.ndjson"
        with open(p, "w") as f:
            f.writelines(lines)
        res.append((p, first, len(lines)))
    return res, n


def tlc_trace_one(spec, cfg, chunk, metadir, timeout):
    env = dict(os.environ, TRACE=str(chunk))
    env.pop("JAVA_TOOL_OPTIONS", None)
    cmd = java_cmd() + ["-workers", "1", "-metadir", str(metadir), "-cleanup",
                        "-noGenerateSpecTE", "-config", str(cfg), str(spec)]
    try:
        p = subprocess.run(cmd, capture_output=True, text=True, env=env, timeout=timeout,
                           cwd=str(metadir.parent))
        out = p.stdout + p.stderr
    except subprocess.TimeoutExpired:
        raise ToolError(f"TLC timed out validating {chunk}")
    finally:
        shutil.rmtree(metadir, ignore_errors=True)
    if "Model checking completed. No error has been found." not in out:
        raise ToolError(f"TLC failed on {chunk} with {spec.name}:\n" + out[-3000:])
    rej = [(int(a), [c.strip().strip('"') for c in b.split(",") if c.strip()], int(c))
           for a, b, c in REJ_RE.findall(out)]
    done = DONE_RE.search(out)
    if not done:
        raise ToolError(f"TLC did not reach the end of {chunk}:\n" + out[-3000:])
    m = re.search(r"(\d+) states generated, (\d+) distinct states found", out)
    infos = INFO_RE.findall(out)
    return rej, int(m.group(2)) if m else 0, infos


def validate(spec_name, trace_path, tag, max_lines=60000, par=None, timeout=3000):
    """Trace validation: every line of `trace_path` is stepped through the
    trace specification `spec_name` by TLC.  Returns dict(rejects=[(case,
    clauses, global_line)], states, lines, infos)."""
    spec = SPEC / "trace" / (spec_name + ".tla")
    cfg = SPEC / "trace" / (spec_name + ".cfg")
    wd = WORK / tag / "tv"
    shutil.rmtree(wd, ignore_errors=True)
    par = par or max(1, min(12, NCPU - 2))
    with open(trace_path) as f:
        total = sum(1 for _ in f)
    # balance the chunks over the TLC processes (each TLC start costs ~1.5 s)
    max_lines = max(1500, min(max_lines, -(-total // par)))
    chunks, nlines = split_trace(trace_path, wd, max_lines)
    t0 = time.time()

    def one(i_chunk):
        i, (p, first, n) = i_chunk
        rej, states, infos = tlc_trace_one(spec, cfg, p, wd / f"meta{i:04d}", timeout)
        return [(c, cl, first + ln - 1) for (c, cl, ln) in rej], states, infos

    rejects, states, infos = [], 0, []
    with ThreadPoolExecutor(max_workers=par) as ex:
        for rej, st, inf in ex.map(one, enumerate(chunks)):
            rejects += rej
            states += st
            infos += inf
    log(f"[tlc] {spec_name}: {nlines} lines in {len(chunks)} chunk(s), {states} states, "
        f"{len(rejects)} rejection(s), {time.time()-t0:.1f}s")
    shutil.rmtree(wd, ignore_errors=True)
    return dict(rejects=rejects, states=states, lines=nlines, infos=infos)


def tlc_mc(spec_path, cfg_path, tag, workers=8, timeout=3000, xmx="8g", extra=None,
           simulate=None, coverage=True):
    """Model checking of a Tier-B model (P2).  Returns dict(states, distinct,
    coverage={action: count}, out).  A failing invariant of an unchanged spec is a
    tool error, not a violation (DESIGN.md 2.3)."""
    md = WORK / tag / "mc"
    shutil.rmtree(md, ignore_errors=True)
    md.mkdir(parents=True, exist_ok=True)
    env = dict(os.environ)
    env.pop("JAVA_TOOL_OPTIONS", None)
    # NB: -coverage disables TLC's caching of lazily evaluated values; models whose invariants
    # evaluate deep recursive operators (Patch) must be run without it.
    cmd = java_cmd(xmx=xmx, deque=False) + ["-workers", str(workers), "-metadir", str(md),
                                            "-cleanup", "-noGenerateSpecTE"] + \
        (["-coverage", "1"] if coverage else []) + ["-config", str(Path(cfg_path).resolve())]
    if simulate:
        cmd += ["-simulate", simulate]
    cmd += (extra or []) + [str(Path(spec_path).resolve())]
    t0 = time.time()
    try:
        p = subprocess.run(cmd, capture_output=True, text=True, env=env, timeout=timeout,
                           cwd=str(md))
        out = p.stdout + p.stderr
    except subprocess.TimeoutExpired:
        raise ToolError(f"TLC timed out on {spec_path}")
    finally:
        shutil.rmtree(md, ignore_errors=True)
        try:
            md.parent.rmdir()
        except OSError:
            pass
    ok = "Model checking completed. No error has been found." in out or \
        bool(simulate and "Error:" not in out and "violated" not in out and "states generated" in out)
    m = re.findall(r"(\d+) states generated, (\d+) distinct states found", out)
    if simulate and not m:
        ms = re.findall(r"The number of states generated: (\d+)", out)
        m = [(ms[-1], "0")] if ms else []
    cov = {}
    for name, a, b in re.findall(r"<(\w+) line \d+, col \d+ to line \d+, col \d+ of module \w+>: (\d+):(\d+)", out):
        cov[name] = cov.get(name, 0) + int(b)
    res = dict(ok=ok, states=int(m[-1][0]) if m else 0, distinct=int(m[-1][1]) if m else 0,
               coverage=cov, out=out, wall=time.time() - t0)
    log(f"[tlc] model {Path(spec_path).name}/{Path(cfg_path).name}: ok={ok} "
        f"{res['states']} states, {res['distinct']} distinct, {res['wall']:.1f}s")
    return res


def spec_hash(*paths):
    import hashlib
    h = hashlib.sha256()
    for d in ("abstract", "impl", "mc", "proof"):
        for f in sorted((SPEC / d).glob("*.tla")):
            h.update(f.read_bytes())
    for p in paths:
        h.update(Path(p).read_bytes())
    return h.hexdigest()[:16]


REPLAY_RE = re.compile(r'^<<"REPLAY", "(.*)">>$')


def tlc_dump(spec_path, cfg_path, tag, workers=4, timeout=3000):
    """P3: run TLC on a dump configuration (an invariant prints one JSON line per
    terminal state) and return (ndjson path, stats).  The dump does not depend on
    /repo, so it is cached under work/cache keyed by the hash of all specs + cfg."""
    cache = CACHE
    cache.mkdir(parents=True, exist_ok=True)
    key = spec_hash(cfg_path) + "_" + Path(cfg_path).stem
    out_path = cache / (key + ".ndjson")
    meta_path = cache / (key + ".json")
    lock = open(cache / ".lock", "w")
    fcntl.flock(lock, fcntl.LOCK_EX)
    try:
        if out_path.exists() and meta_path.exists():
            st = json.load(open(meta_path))
            st["cached"] = True
            return out_path, st
        res = tlc_mc(spec_path, cfg_path, tag + "_dump", workers=workers, timeout=timeout, coverage=False)
        if not res["ok"]:
            raise ToolError(f"TLC dump run failed for {cfg_path}:\n" + res["out"][-3000:])
        n = 0
        with open(out_path.with_suffix(".tmp"), "w") as f:
            for line in res["out"].splitlines():
                m = REPLAY_RE.match(line.strip())
                if m:
                    js = m.group(1).replace('\\"', '"').replace("\\\\", "\\")
                    json.loads(js)
                    f.write(js + "\n")
                    n += 1
        os.replace(out_path.with_suffix(".tmp"), out_path)
        st = dict(states=res["states"], distinct=res["distinct"], behaviours=n, wall=round(res["wall"], 1),
                  coverage=res["coverage"], cached=False)
        json.dump(st, open(meta_path, "w"))
        return out_path, st
    finally:
        fcntl.flock(lock, fcntl.LOCK_UN)
        lock.close()


def tlc_mc_cached(spec_path, cfg_path, tag, workers=8, timeout=3000, coverage=True):
    """P2 with a cache keyed by the hash of all specs + cfg (the model does not depend on /repo)."""
    cache = CACHE
    cache.mkdir(parents=True, exist_ok=True)
    meta_path = cache / (spec_hash(cfg_path) + "_" + Path(cfg_path).stem + ".mc.json")
    lock = open(cache / (".lock_" + Path(cfg_path).stem), "w")
    fcntl.flock(lock, fcntl.LOCK_EX)
    try:
        if meta_path.exists():
            st = json.load(open(meta_path))
            st["cached"] = True
            return st
        res = tlc_mc(spec_path, cfg_path, tag, workers=workers, timeout=timeout, coverage=coverage)
        st = dict(ok=bool(res["ok"]), states=res["states"], distinct=res["distinct"], wall=round(res["wall"], 1),
                  coverage=res["coverage"], cached=False, tail=res["out"][-1500:] if not res["ok"] else "")
        if st["ok"]:
            json.dump(st, open(meta_path, "w"))
        return st
    finally:
        fcntl.flock(lock, fcntl.LOCK_UN)
        lock.close()


def apalache_inductive(spec_path, tag, timeout=1800):
    """Discharge the three obligations of an inductive-invariant argument with Apalache
    (Init => IndInv; IndInv /\\ Next => IndInv'; IndInv => Safety).  Cached by spec hash."""
    CACHE.mkdir(parents=True, exist_ok=True)
    meta = CACHE / (spec_hash(spec_path) + "_" + Path(spec_path).stem + ".apalache.json")
    if meta.exists():
        st = json.load(open(meta))
        st["cached"] = True
        return st
    obligations = [("Init => IndInv", ["--init=Init", "--inv=IndInv", "--length=0"]),
                   ("IndInv /\\ Next => IndInv'", ["--init=IndInit", "--inv=IndInv", "--length=1"]),
                   ("IndInv => Safety", ["--init=IndInit", "--inv=Safety", "--length=0"])]
    outdir = WORK / tag / "apalache"
    res = []
    t0 = time.time()
    for name, args in obligations:
        cmd = ["apalache-mc", "check"] + args + ["--out-dir=" + str(outdir), str(Path(spec_path).resolve())]
        try:
            p = subprocess.run(cmd, capture_output=True, text=True, timeout=timeout, cwd=str(Path(spec_path).parent))
            ok = "EXITCODE: OK" in p.stdout
        except subprocess.TimeoutExpired:
            ok = False
        res.append({"obligation": name, "discharged": ok})
    shutil.rmtree(outdir, ignore_errors=True)
    shutil.rmtree(Path(spec_path).parent / "_apalache-out", ignore_errors=True)
    st = dict(obligations=res, discharged=sum(1 for r in res if r["discharged"]), total=len(res),
              wall=round(time.time() - t0, 1), cached=False,
              checker_cmd="apalache-mc check --init=.. --inv=.. --length=0|1 " + Path(spec_path).name)
    if st["discharged"] == st["total"]:
        json.dump(st, open(meta, "w"))
    log(f"[apalache] {Path(spec_path).name}: {st['discharged']}/{st['total']} obligations discharged, {st['wall']}s")
    return st


# --------------------------------------------------------------------------- traces

def read_cases(trace_path, wanted):
    """Collect the lines of the given case ids from an ndjson trace.
    Returns {case: [lines]}."""
    wanted = set(wanted)
    res = {}
    cur = None
    with open(trace_path) as f:
        for line in f:
            if is_case_start(line):
                try:
                    c = json.loads(line).get("case")
                except Exception:
                    c = None
                cur = c if c in wanted else None
                if cur is not None:
                    res.setdefault(cur, []).append(line)
            elif cur is not None:
                res[cur].append(line)
    return res


def write_replays(prop, trace_path, rejects, meta, cap=8):
    """One replay file per rejected case (capped).  Returns {case: path}."""
    d = REPLAYS / prop
    d.mkdir(parents=True, exist_ok=True)
    by_case = {}
    for case, clauses, line in rejects:
        by_case.setdefault(case, set()).update(clauses)
    chosen = sorted(by_case)[:cap]
    lines = read_cases(trace_path, chosen)
    paths = {}
    for c in chosen:
        p = d / f"{meta.get('family','case')}_{int(time.time())}_{c}.ndjson"
        with open(p, "w") as f:
            f.write(json.dumps({"ev": "replay_meta", "property": prop,
                                "clauses": sorted(by_case[c]), **meta}) + "\n")
            f.writelines(lines.get(c, []))
        paths[c] = p
    return paths, by_case


# --------------------------------------------------------------------------- result / evidence

class Outcome:
    def __init__(self, prop, tier, seed):
        self.prop, self.tier, self.seed = prop, tier, seed
        self.violations = []     # (what, replay_path)
        self.known = []          # text lines
        self.cov = {}            # evidence coverage
        self.level = "model_checking"
        self.assumptions = []
        self.t0 = time.time()
        self.notes = []

    def violation(self, what, replay):
        self.violations.append((what, replay))

    def add(self, key, val):
        if isinstance(val, (int, float)) and not isinstance(val, bool) and key in self.cov \
                and isinstance(self.cov[key], (int, float)):
            self.cov[key] += val
        elif isinstance(val, list) and key in self.cov:
            self.cov[key] += val
        else:
            self.cov[key] = val

    def finish(self):
        EVIDENCE.mkdir(exist_ok=True)
        cov = dict(self.cov)
        cov.setdefault("samples", [])

        def shrink(x, depth=0):
            # samples are there to be read: long arrays are cut, with a marker
            if isinstance(x, list):
                y = [shrink(v, depth + 1) for v in x[:24]]
                if len(x) > 24:
                    y.append(f"... ({len(x)} items)")
                return y
            if isinstance(x, dict):
                return {k: shrink(v, depth + 1) for k, v in x.items()}
            return x
        cov["samples"] = [shrink(x) for x in cov["samples"][:6]]
        ev = dict(property_id=self.prop, tier=self.tier, seed=self.seed, level=self.level,
                  coverage=cov, assumptions=self.assumptions,
                  wall_s=round(time.time() - self.t0, 2), violations=len(self.violations))
        if self.known:
            ev["known_findings"] = self.known
        if self.notes:
            ev["notes"] = self.notes
        with open(EVIDENCE / f"{self.prop}.json", "w") as f:
            json.dump(ev, f, indent=1)
            f.write("\n")
        for k in self.known:
            print(f"KNOWN-FINDING: property={self.prop} {k}")
        for what, replay in self.violations[:10]:
            print(f"VIOLATION property={self.prop} replay={replay}   # {what}")
        if self.violations:
            return 1
        print(f"OK property={self.prop} tier={self.tier} "
              f"evaluations={cov.get('evaluations')} nontrivial={cov.get('distinct_nontrivial')} "
              f"states={cov.get('states')} wall={ev['wall_s']}s")
        return 0


def load_known():
    p = VERIF / "known_findings.json"
    if p.exists():
        return json.load(open(p))
    return {"known": [], "fixed": []}


# --------------------------------------------------------------------------- main

def main(argv):
    from lib import props
    import argparse
    ap = argparse.ArgumentParser()
    ap.add_argument("prop", nargs="?")
    ap.add_argument("--tier", default=os.environ.get("VERIF_TIER", "quick"))
    ap.add_argument("--seed", type=int, default=int(os.environ.get("VERIF_SEED", "1")))
    ap.add_argument("--replay")
    ap.add_argument("--setup", action="store_true")
    ap.add_argument("--selftest", action="store_true")
    ap.add_argument("--keep", action="store_true", help="keep work files")
    a = ap.parse_args(argv)
    if a.tier not in ("quick", "thorough"):
        a.tier = "quick"
    try:
        if a.setup:
            return props.setup()
        if a.selftest:
            return props.selftest()
        if not a.prop or a.prop not in props.PROPS:
            log("unknown property; known: " + " ".join(sorted(props.PROPS)))
            return 2
        build_harness()
        if a.replay:
            return props.replay(a.prop, a.replay)
        out = Outcome(a.prop, a.tier, a.seed)
        props.PROPS[a.prop](out)
        rc = out.finish()
        if not a.keep:
            shutil.rmtree(WORK / a.prop, ignore_errors=True)
        return rc
    except ToolError as e:
        log("TOOL ERROR: " + str(e))
        return 2
    except Exception:  # a failure of the machinery itself is never a verdict (exit 1 needs a VIOLATION line)
        import traceback
        log("TOOL ERROR: unexpected exception in the checking machinery\n" + traceback.format_exc())
        return 2
    finally:
        shutil.rmtree(WORK / "jtmp" / str(os.getpid()), ignore_errors=True)
