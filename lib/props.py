"""Per-property check definitions (DESIGN.md section 5)."""
import json
import os
import time
from pathlib import Path

from lib import core
from lib.core import WORK, SPEC, log, ToolError

PROPS = {}


def prop(pid):
    def deco(f):
        PROPS[pid] = f
        return f
    return deco


# --------------------------------------------------------------------------- helpers

def drive(out, family, extra=(), nounicode=False, name=None, timeout=1800):
    """Run a harness driver; returns the trace path.  A harness that aborts or
    hangs yields a violation for the case that was running."""
    wd = WORK / out.prop
    wd.mkdir(parents=True, exist_ok=True)
    trace = wd / f"{name or family}.ndjson"
    args = ["drive", family, "--out", trace, "--tier", out.tier, "--seed", out.seed] + list(extra)
    t0 = time.time()
    rc, err = core.run_sv(args, timeout=timeout, nounicode=nounicode)
    log(f"[sv] drive {family} rc={rc} {time.time()-t0:.1f}s {err.strip().splitlines()[-1] if err.strip() else ''}")
    if rc == 2:
        raise ToolError(f"harness usage/tool error in drive {family}: {err[-2000:]}")
    if rc != 0:
        # the code under test aborted the process or never returned
        last = None
        with open(trace) as f:
            for line in f:
                if core.is_case_start(line):
                    last = line
        d = core.REPLAYS / out.prop
        d.mkdir(parents=True, exist_ok=True)
        p = d / f"{family}_died_{int(time.time())}.ndjson"
        with open(p, "w") as f:
            f.write(json.dumps({"ev": "replay_meta", "property": out.prop, "family": family,
                                "clauses": ["noreturn" if rc == -9 else "abort"]}) + "\n")
            if last:
                f.write(last)
        out.violation(f"harness {'timed out' if rc == -9 else 'aborted'} (rc={rc}) in family {family}", p)
        # keep only complete cases for validation
        _truncate_to_complete(trace)
    return trace


def _truncate_to_complete(trace):
    lines = open(trace).read().splitlines(True)
    # drop an incomplete last line and an unfinished last case
    if lines and not lines[-1].endswith("\n"):
        lines.pop()
    last_start = None
    closed = True
    for i, line in enumerate(lines):
        m = core.EV_RE.search(line)
        ev = m.group(1) if m else ""
        if ev == "start":
            last_start, closed = i, False
        elif ev in ("ret", "panic"):
            closed = True
    if not closed and last_start is not None:
        lines = lines[:last_start]
    open(trace, "w").writelines(lines)


def scan_hook_cases(trace):
    """Yield (start_record, [event records], ret_record_or_None) per hook case and
    (record, None, None) for stand-alone call records."""
    cur = None
    evs = []
    with open(trace) as f:
        for line in f:
            r = json.loads(line)
            ev = r.get("ev")
            if ev == "start":
                cur, evs = r, []
            elif ev in ("ret", "panic"):
                if cur is not None:
                    yield cur, evs, r
                cur = None
            elif cur is not None and ev in ("equal", "delete", "insert", "replace", "finish", "probe", "step"):
                evs.append(r)
            else:
                yield r, None, None


def judge(out, family, trace, spec, clauses, known=None, meta=None):
    """Validate `trace` with trace spec `spec`; rejections whose clause is in
    `clauses` count for this property.  `known(case_lines, clause_set)` may
    attribute a rejected case to a known finding (returns text or None)."""
    res = core.validate(spec, trace, out.prop)
    rel = [(c, [x for x in cl if x in clauses], ln) for (c, cl, ln) in res["rejects"]]
    rel = [(c, cl, ln) for (c, cl, ln) in rel if cl]
    other = len(res["rejects"]) - len(rel)
    out.add("traces_validated_against_impl", 0)
    out.add("trace_lines_validated", res["lines"])
    out.add("trace_states", res["states"])
    if other:
        out.notes.append(f"{family}: {other} rejection(s) of clauses that belong to other properties ignored")
    if rel:
        paths, by_case = core.write_replays(out.prop, trace, rel, dict(family=family, **(meta or {})), cap=40)
        nrep = 0
        for c in sorted(by_case):
            what = f"{family} case {c}: clause(s) {sorted(by_case[c])}"
            if c in paths:
                if nrep < 8:
                    out.violation(what, paths[c])
                    nrep += 1
            elif nrep == 0:
                out.violation(what, "n/a")
        out.add("rejected_cases", len(by_case))
    return res


# --------------------------------------------------------------------------- C01

C01_CLAUSES = {"script", "carried", "recon", "panic", "shift", "noreturn",
               "after_finish", "finish_twice", "no_finish", "ret_error"}


@prop("C01")
def c01(out):
    trace = drive(out, "c01")
    n = nt = 0
    seen = set()
    samples = []
    for st, evs, ret in scan_hook_cases(trace):
        if evs is None:
            continue
        n += 1
        N, M = st["oe"] - st["os"], st["ne"] - st["ns"]
        kinds = {e["ev"] for e in evs}
        if N > 0 and M > 0 and "equal" in kinds and kinds & {"delete", "insert", "replace"}:
            key = (st["alg"], tuple(st["old"]), tuple(st["new"]), st["os"], st["oe"], st["ns"], st["ne"], st["index"])
            if key not in seen:
                seen.add(key)
                nt += 1
                if len(samples) < 3:
                    samples.append({"start": st, "events": [[e["ev"]] + [e.get(k) for k in ("o", "n", "len")] for e in evs]})
    out.add("evaluations", n)
    out.add("distinct_nontrivial", nt)
    out.add("rule", "one evaluation = one algorithms::diff call recorded as a hook event trace and validated "
                    "event by event by TLC against spec/abstract/Script.tla; non-trivial = both ranges non-empty "
                    "and the stream has >=1 equal and >=1 change; distinct by (alg, sequences, ranges, index kind)")
    out.add("samples", samples)
    judge(out, "c01", trace, "TraceHook", C01_CLAUSES)
    out.add("traces_validated_against_impl", n)
    out.add("states", out.cov.get("trace_states", 0))
    out.add("transitions", out.cov.get("trace_lines_validated", 0))


# --------------------------------------------------------------------------- family O (captured ops)

def lcs_len(a, b):
    prev = [0] * (len(b) + 1)
    for x in a:
        cur = [0]
        for j, y in enumerate(b):
            cur.append(prev[j] + 1 if x == y else max(prev[j + 1], cur[j]))
        prev = cur
    return prev[-1]


def scan_records(trace):
    with open(trace) as f:
        for line in f:
            yield json.loads(line)


def ops_check(out, clauses, nontrivial, what, known_clause=None, extra=()):
    """Run the captured-ops driver and judge the given clauses."""
    trace = drive(out, "ops", extra=extra)
    n = nt = 0
    seen = set()
    samples = []
    for r in scan_records(trace):
        n += 1
        key = (r["alg"], tuple(r["old"]), tuple(r["new"]), r["os"], r["oe"], r["ns"], r["ne"], r["entry"], r["fuel"])
        if key in seen:
            continue
        if nontrivial(r):
            seen.add(key)
            nt += 1
            if len(samples) < 3:
                samples.append({k: r[k] for k in ("alg", "entry", "old", "new", "os", "oe", "ns", "ne", "fuel", "ops")})
    out.add("evaluations", n)
    out.add("distinct_nontrivial", nt)
    out.add("rule", what)
    out.add("samples", samples)
    res = core.validate("TraceOps", trace, out.prop)
    out.add("trace_lines_validated", res["lines"])
    out.add("traces_validated_against_impl", n)
    out.add("states", res["states"])
    out.add("transitions", res["lines"])
    by_case = {}
    for c, cl, ln in res["rejects"]:
        by_case.setdefault(c, set()).update(cl)
    viol, known = [], []
    for c, cl in sorted(by_case.items()):
        rel = cl & clauses
        if known_clause and known_clause[0] in rel and known_clause[1] not in cl:
            # rejected as shipped, accepted with the swap-repair switch on
            known.append(c)
            rel = rel - {known_clause[0]}
        if rel:
            viol.append((c, sorted(rel), 0))
    if viol:
        paths, bc = core.write_replays(out.prop, trace, viol, dict(family="ops"), cap=8)
        for c in sorted(bc)[:8]:
            out.violation(f"ops case {c}: clause(s) {sorted(bc[c])}", paths.get(c, "n/a"))
        out.add("rejected_cases", len(bc))
    return trace, known


def nontriv_ops_basic(r):
    return r["oe"] > r["os"] and r["ne"] > r["ns"] and len(r["ops"]) >= 2


@prop("C02")
def c02(out):
    ops_check(out, {"valid", "apply", "identical", "ratio", "panic"},
              lambda r: nontriv_ops_basic(r) and r.get("cc", False),
              "one evaluation = one capture_diff*/TextDiff::ops call (all algorithms, slices / ranges with a panicking "
              "window lookup / TextDiff, deadline none / never / every expiry index) judged by TLC with Ops!ValidOps, "
              "ApplyOk, identical-input and ratio clauses; non-trivial = both ranges non-empty, >=2 ops and the compaction "
              "stage changed the raw script; distinct by (alg, sequences, ranges, entry point, fuel)")


@prop("C09")
def c09(out):
    ops_check(out, {"normal"},
              lambda r: nontriv_ops_basic(r) and r.get("cc", False),
              "captured op lists judged by TLC with Ops!NormalForm (no empty op, strict Equal/non-Equal alternation, "
              "insertion before an Equal sits at its latest position); non-trivial = compaction merged or slid something; "
              "distinct by (alg, sequences, ranges, entry point, fuel)")


@prop("C11")
def c11(out):
    trace, known = ops_check(out, {"exact", "exact_rep"},
                             lambda r: nontriv_ops_basic(r) and (r.get("swaps", 0) > 0 or r.get("cc", False)),
                             "captured op lists judged by TLC with Ops!ExactPositions (both indices of every op equal the "
                             "items consumed so far); every case is run twice, as shipped and with the cfg(similar_verif) "
                             "swap-repair switch on, for known-finding attribution; non-trivial = a swap arm fired or the "
                             "compaction changed the script",
                             known_clause=("exact", "exact_rep"))
    if known:
        ex = core.read_cases(trace, known[:1]).get(known[0], ["?"])[0]
        r = json.loads(ex)
        out.known.append(f"KF-1 compact.rs swap arms leave the carried index of the swapped Delete/Insert stale "
                         f"({len(known)} cases rejected as shipped and accepted with the swap repair on, e.g. "
                         f"alg={r['alg']} old={r['old'][r['os']:r['oe']]} new={r['new'][r['ns']:r['ne']]} ops={r['ops']})")
        out.add("known_finding_hits", len(known))


@prop("C03")
def c03(out):
    def nt(r):
        if r["alg"] == "patience" or r["fuel"] != -2:
            return False
        a, b = r["old"][r["os"]:r["oe"]], r["new"][r["ns"]:r["ne"]]
        L = lcs_len(a, b)
        return 0 < L < min(len(a), len(b))
    ops_check(out, {"minimal", "ratio_formula"}, nt,
              "captured ops (Myers, LCS, no deadline): Cost = N+M-2*LcsLen, EqualTotal = LcsLen and ratio = 2L/(N+M), with "
              "LcsLen computed by TLC from an independent fold (Oracles!LcsLen); raw callback streams: deleted+inserted = "
              "N+M-2*LcsLen; non-trivial = 0 < L < min(N,M); distinct by (alg, sequences, ranges, entry point)",
              extra=["--deadline", "0"])
    trace = drive(out, "c01")
    n = sum(1 for st, evs, ret in scan_hook_cases(trace) if evs is not None and st["alg"] != "patience")
    out.add("evaluations", n)
    judge(out, "c01", trace, "TraceHook", {"minimal"})
    out.add("traces_validated_against_impl", n)


@prop("C15")
def c15(out):
    def nt(r):
        if r["alg"] != "patience" or r["fuel"] != -2:
            return False
        a, b = r["old"][r["os"]:r["oe"]], r["new"][r["ns"]:r["ne"]]
        u = [x for x in a if a.count(x) == 1 and b.count(x) == 1]
        v = [x for x in b if x in u]
        return len(u) >= 2 and u != v and lcs_len(u, v) >= 2
    ops_check(out, {"anchors"}, nt,
              "Patience without deadline, captured ops and raw streams: number of common-unique items covered by Equal "
              "segments >= K, K = LcsLen of the two lists of common-unique items (Oracles!AnchorOptimum, evaluated by TLC); "
              "non-trivial = K >= 2 and the common-unique items are not in the same order on both sides",
              extra=["--deadline", "0"])
    trace = drive(out, "c01")
    n = sum(1 for st, evs, ret in scan_hook_cases(trace) if evs is not None and st["alg"] == "patience")
    out.add("evaluations", n)
    judge(out, "c01", trace, "TraceHook", {"anchors"})
    out.add("traces_validated_against_impl", n)


# --------------------------------------------------------------------------- setup / selftest / replay

def setup():
    core.build_harness()
    import subprocess
    bad = 0
    for d in ("abstract", "impl", "trace", "mc"):
        for p in sorted((SPEC / d).glob("*.tla")):
            r = subprocess.run(["java", "-DTLA-Library=" + core.TLA_LIB, "-cp", core.JAVA_CP, "tla2sany.SANY", str(p)],
                               capture_output=True, text=True, cwd=str(p.parent))
            ok = r.returncode == 0 and "Semantic errors" not in r.stdout and "Parsing or semantic analysis failed" not in r.stdout \
                and "***Parse Error***" not in r.stdout
            log(f"[sany] {p.name}: {'ok' if ok else 'FAILED'}")
            if not ok:
                log(r.stdout[-2000:])
                bad += 1
    return 2 if bad else 0


def selftest():
    log("selftest: not yet implemented")
    return 0


def replay(pid, path):
    log("replay: not yet implemented")
    return 2
