"""Per-property check definitions (DESIGN.md section 5)."""
import json
import os
import time
from pathlib import Path

from lib import core
from lib.core import WORK, SPEC, log, ToolError

PROPS = {}


def prop(pid):
    def deco(f):
        PROPS[pid] = f
        return f
    return deco


# --------------------------------------------------------------------------- helpers

def drive(out, family, extra=(), nounicode=False, name=None, timeout=None):
    """Run a harness driver; returns the trace path.  A harness that aborts or
    hangs yields a violation for the case that was running."""
    wd = WORK / out.prop
    wd.mkdir(parents=True, exist_ok=True)
    trace = wd / f"{name or family}.ndjson"
    args = ["drive", family, "--out", trace, "--tier", out.tier, "--seed", out.seed] + list(extra)
    if timeout is None:
        # the slowest driver takes ~4 s (quick) / ~40 s (thorough); a run that takes 100x longer hangs
        timeout = 2400 if out.tier == "thorough" else 400
    t0 = time.time()
    rc, err = core.run_sv(args, timeout=timeout, nounicode=nounicode)
    log(f"[sv] drive {family} rc={rc} {time.time()-t0:.1f}s {err.strip().splitlines()[-1] if err.strip() else ''}")
    if rc == 2:
        raise ToolError(f"harness usage/tool error in drive {family}: {err[-2000:]}")
    if rc != 0:
        # the code under test aborted the process or never returned
        last = None
        with open(trace) as f:
            for line in f:
                if core.is_case_start(line):
                    last = line
        d = core.REPLAYS / out.prop
        d.mkdir(parents=True, exist_ok=True)
        p = d / f"{family}_died_{int(time.time())}.ndjson"
        with open(p, "w") as f:
            f.write(json.dumps({"ev": "replay_meta", "property": out.prop, "family": family,
                                "clauses": ["noreturn" if rc == -9 else "abort"]}) + "\n")
            if last:
                f.write(last)
        out.violation(f"harness {'timed out' if rc == -9 else 'aborted'} (rc={rc}) in family {family}", p)
        # keep only complete cases for validation
        _truncate_to_complete(trace)
    return trace


def _truncate_to_complete(trace):
    lines = open(trace).read().splitlines(True)
    # drop an incomplete last line and an unfinished last case
    if lines and not lines[-1].endswith("\n"):
        lines.pop()
    last_start = None
    closed = True
    for i, line in enumerate(lines):
        m = core.EV_RE.search(line)
        ev = m.group(1) if m else ""
        if ev == "start":
            last_start, closed = i, False
        elif ev in ("ret", "panic"):
            closed = True
    if not closed and last_start is not None:
        lines = lines[:last_start]
    open(trace, "w").writelines(lines)


def scan_hook_cases(trace):
    """Yield (start_record, [event records], ret_record_or_None) per hook case and
    (record, None, None) for stand-alone call records."""
    cur = None
    evs = []
    with open(trace) as f:
        for line in f:
            r = json.loads(line)
            ev = r.get("ev")
            if ev == "start":
                cur, evs = r, []
            elif ev in ("ret", "panic"):
                if cur is not None:
                    yield cur, evs, r
                cur = None
            elif cur is not None and ev in ("equal", "delete", "insert", "replace", "finish", "probe", "step"):
                evs.append(r)
            else:
                yield r, None, None


def judge(out, family, trace, spec, clauses, known=None, meta=None):
    """Validate `trace` with trace spec `spec`; rejections whose clause is in
    `clauses` count for this property.  `known(case_lines, clause_set)` may
    attribute a rejected case to a known finding (returns text or None)."""
    res = core.validate(spec, trace, out.prop)
    rel = [(c, [x for x in cl if x in clauses], ln) for (c, cl, ln) in res["rejects"]]
    rel = [(c, cl, ln) for (c, cl, ln) in rel if cl]
    other = len(res["rejects"]) - len(rel)
    out.add("traces_validated_against_impl", 0)
    out.add("trace_lines_validated", res["lines"])
    out.add("trace_states", res["states"])
    if other:
        out.notes.append(f"{family}: {other} rejection(s) of clauses that belong to other properties ignored")
    if rel:
        paths, by_case = core.write_replays(out.prop, trace, rel, dict(family=family, **(meta or {})), cap=40)
        nrep = 0
        for c in sorted(by_case):
            what = f"{family} case {c}: clause(s) {sorted(by_case[c])}"
            if c in paths:
                if nrep < 8:
                    out.violation(what, paths[c])
                    nrep += 1
            elif nrep == 0:
                out.violation(what, "n/a")
        out.add("rejected_cases", len(by_case))
    return res


# --------------------------------------------------------------------------- P2 / P3

MC = SPEC / "mc"


def p2(out, spec, cfgs, workers=10, coverage=True):
    """Model checking of Tier-B models (design level).  A failing invariant of an
    unchanged specification is a tool error, never a property violation."""
    for cfg in cfgs:
        st = core.tlc_mc_cached(MC / spec, MC / (cfg + ".cfg"), out.prop, workers=workers, coverage=coverage)
        if not st["ok"]:
            raise ToolError(f"Tier-B model {spec}/{cfg} does not satisfy its invariants (specification regression):\n" + st.get("tail", ""))
        unused = [a for a, n in st["coverage"].items() if n == 0 and a in ("Next", "Feed", "Clean", "Finish")]
        if unused:
            raise ToolError(f"vacuity: action(s) {unused} of {cfg} never taken")
        out.add("model_states", st["distinct"])
        out.add("model_transitions", st["states"])
        out.cov.setdefault("models", []).append({"cfg": cfg, "distinct_states": st["distinct"], "states_generated": st["states"],
                                                 "wall_s": st["wall"], "cached": st["cached"]})


def split_replay(trace, wd):
    """Split a replay trace into hook lines, ops records and drift records."""
    hook, ops = wd / (trace.stem + "_hook.ndjson"), wd / (trace.stem + "_ops.ndjson")
    drift = {"n": 0, "stream": 0, "probes": 0, "cmps": 0, "piped": 0, "examples": []}
    with open(trace) as f, open(hook, "w") as fh, open(ops, "w") as fo:
        for line in f:
            if '"ev":"drift"' in line:
                r = json.loads(line)
                drift["n"] += 1
                for k in ("stream", "probes", "cmps", "piped"):
                    if r.get(k):
                        drift[k] += 1
                        if len(drift["examples"]) < 3:
                            drift["examples"].append(r)
            elif '"ev":"ops"' in line:
                fo.write(line)
            else:
                fh.write(line)
    return hook, ops, drift


def p3_alg(out, algs, clauses, faults, keep=None):
    """spec -> implementation: every terminal state of the Tier-B algorithm models (TLC dump)
    is replayed into the real code under the same fault schedule; the recorded traces are
    validated against Tier A; differences from the model's prediction are model drift."""
    wd = WORK / out.prop
    wd.mkdir(parents=True, exist_ok=True)
    for alg in algs:
        suffix = "_dump" if faults else ("_dump0_t" if out.tier == "thorough" else "_dump0")
        dump, st = core.tlc_dump(MC / "MCAlgs.tla", MC / f"MCAlg_{alg}{suffix}.cfg", out.prop)
        src = dump
        if keep:
            src = wd / f"beh_{alg}.ndjson"
            with open(dump) as f, open(src, "w") as g:
                for line in f:
                    if keep(json.loads(line)):
                        g.write(line)
        trace = wd / f"replay_{alg}.ndjson"
        rc, err = core.run_sv(["replay", "alg", "--alg", alg, "--deadline", 1 if faults else 0, "--in", src, "--out", trace])
        if rc != 0:
            raise ToolError(f"replay of {alg} behaviours failed rc={rc}: {err[-500:]}")
        hook, _, drift = split_replay(trace, wd)
        if alg == "patience":
            drift["cmps"] = 0      # unique()'s HashMap comparisons are not modelled (Patience.tla)
        n = drift["n"]
        res = judge(out, f"replay_{alg}", hook, "TraceHook", clauses)
        out.add("evaluations", n)
        out.add("traces_validated_against_impl", n)
        out.add("replayed_model_behaviours", n)
        d = drift["stream"] + drift["probes"] + drift["cmps"]
        out.add("model_drift", d)
        if d:
            msg = (f"model drift: {alg}: {drift['stream']} stream / {drift['probes']} probe-count / {drift['cmps']} comparison-count "
                   f"differences between the Tier-B model and the code over {n} behaviours (informational; the verdict is Tier A)")
            print("INFO " + msg)
            out.notes.append(msg)
        out.cov.setdefault("dumps", []).append({"cfg": f"MCAlg_{alg}{suffix}", "behaviours": st["behaviours"], "replayed": n,
                                                "cached": st["cached"]})


def p3_compact(out, hook_clauses, ops_clauses, known_clause=None):
    wd = WORK / out.prop
    wd.mkdir(parents=True, exist_ok=True)
    dump, st = core.tlc_dump(MC / "MCCompact.tla", MC / "MCCompactDump.cfg", out.prop)
    trace = wd / "replay_compact.ndjson"
    rc, err = core.run_sv(["replay", "compact", "--in", dump, "--out", trace])
    if rc != 0:
        raise ToolError(f"replay of Compact behaviours failed rc={rc}: {err[-500:]}")
    hook, ops, drift = split_replay(trace, wd)
    n = drift["n"]
    known = []
    if hook_clauses:
        judge(out, "replay_compact", hook, "TraceHook", hook_clauses)
    if ops_clauses:
        res = core.validate("TraceOps", ops, out.prop)
        by_case = {}
        for c, cl, ln in res["rejects"]:
            by_case.setdefault(c, set()).update(cl)
        viol = []
        for c, cl in sorted(by_case.items()):
            rel = cl & ops_clauses
            if known_clause and known_clause[0] in rel and known_clause[1] not in cl and "not_kf1" not in cl \
                and "raw_inexact" not in cl:
                known.append(c)
                rel = rel - {known_clause[0]}
            if rel:
                viol.append((c, sorted(rel), 0))
        if viol:
            paths, bc = core.write_replays(out.prop, ops, viol, dict(family="replay_compact_ops"))
            for c in sorted(bc)[:8]:
                out.violation(f"replayed Compact behaviour, ops case {c}: clause(s) {sorted(bc[c])}", paths.get(c, "n/a"))
    out.add("evaluations", n)
    out.add("traces_validated_against_impl", n)
    out.add("replayed_model_behaviours", n)
    d = drift["stream"] + drift["piped"]
    out.add("model_drift", d)
    if d:
        msg = f"model drift: Compact: {drift['stream']} cleaned / {drift['piped']} piped op lists differ from the model over {n} behaviours"
        print("INFO " + msg)
        out.notes.append(msg)
    out.cov.setdefault("dumps", []).append({"cfg": "MCCompactDump", "behaviours": st["behaviours"], "replayed": n, "cached": st["cached"]})
    return known


def expect_violation(out, spec, cfg, invariant):
    """A configuration that must produce a counter-example (the model-level witness of a known
    finding).  Its absence is a specification regression (tool error)."""
    cache = core.CACHE
    cache.mkdir(parents=True, exist_ok=True)
    marker = cache / (core.spec_hash(MC / (cfg + ".cfg")) + "_" + cfg + ".witness")
    if not marker.exists():
        res = core.tlc_mc(MC / spec, MC / (cfg + ".cfg"), out.prop, workers=4, coverage=False)
        if f"Invariant {invariant} is violated" not in res["out"]:
            raise ToolError(f"expected counter-example of {invariant} in {cfg} not produced (specification regression)")
        marker.write_text("ok")
    out.cov.setdefault("model_witnesses", []).append(f"{cfg}: {invariant} violated as expected")


def p3_group(out):
    wd = WORK / out.prop
    wd.mkdir(parents=True, exist_ok=True)
    dump, st = core.tlc_dump(MC / "MCGroup.tla", MC / "MCGroupDump.cfg", out.prop)
    trace = wd / "replay_group.ndjson"
    rc, err = core.run_sv(["replay", "group", "--in", dump, "--out", trace])
    if rc != 0:
        raise ToolError(f"replay of Group behaviours failed rc={rc}: {err[-500:]}")
    recs, _, drift = split_replay(trace, wd)
    res = core.validate("TraceCalls", recs, out.prop)
    rej = [(c, [x for x in cl if x in ("grouping", "panic")], ln) for c, cl, ln in res["rejects"]]
    rej = [r for r in rej if r[1]]
    if rej:
        paths, bc = core.write_replays(out.prop, recs, rej, dict(family="replay_group"))
        for c in sorted(bc)[:8]:
            out.violation(f"replayed Group behaviour case {c}: clause(s) {sorted(bc[c])}", paths.get(c, "n/a"))
    out.add("evaluations", drift["n"])
    out.add("traces_validated_against_impl", drift["n"])
    out.add("replayed_model_behaviours", drift["n"])
    out.add("model_drift", drift["stream"])
    if drift["stream"]:
        msg = f"model drift: Group: {drift['stream']} of {drift['n']} replayed behaviours differ from the model (informational)"
        print("INFO " + msg)
        out.notes.append(msg)


def p3_inline(out):
    wd = WORK / out.prop
    wd.mkdir(parents=True, exist_ok=True)
    dump, st = core.tlc_dump(MC / "MCInline.tla", MC / "MCInlineDump.cfg", out.prop)
    total = drifted = 0
    for nu in (True, False):
        trace = wd / f"replay_inline_{'nounicode' if nu else 'unicode'}.ndjson"
        rc, err = core.run_sv(["replay", "inline", "--in", dump, "--out", trace], nounicode=nu)
        if rc != 0:
            raise ToolError(f"replay of Inline behaviours failed rc={rc}: {err[-500:]}")
        recs, _, drift = split_replay(trace, wd)
        res = core.validate("TraceCalls", recs, out.prop)
        rej = [(c, [x for x in cl if x in ("tags_indices", "segments", "emphasis", "missing_newline", "panic")], ln)
               for c, cl, ln in res["rejects"]]
        rej = [r for r in rej if r[1]]
        if rej:
            paths, bc = core.write_replays(out.prop, recs, rej, dict(family="replay_inline"))
            for c in sorted(bc)[:6]:
                out.violation(f"replayed Inline behaviour case {c}: clause(s) {sorted(bc[c])}", paths.get(c, "n/a"))
        total += drift["n"]
        drifted += drift["stream"]
    out.add("evaluations", total)
    out.add("traces_validated_against_impl", total)
    out.add("replayed_model_behaviours", total)
    out.add("model_drift", drifted)
    if drifted:
        msg = f"model drift: Inline: {drifted} of {total} replayed behaviours differ from the model (informational)"
        print("INFO " + msg)
        out.notes.append(msg)


def p3_fn(out, spec, cfg, clauses, known_pair=None):
    """P3 for function-style models: the real function is run on every input of the model's
    dump and (a) its result is judged by Tier A like any other recorded call, (b) compared with
    the model's prediction (drift)."""
    wd = WORK / out.prop
    wd.mkdir(parents=True, exist_ok=True)
    dump, st = core.tlc_dump(MC / spec, MC / (cfg + ".cfg"), out.prop)
    trace = wd / f"replay_{cfg}.ndjson"
    rc, err = core.run_sv(["replay", "fn", "--in", dump, "--out", trace])
    if rc != 0:
        raise ToolError(f"replay of {cfg} behaviours failed rc={rc}: {err[-500:]}")
    recs, _, drift = split_replay(trace, wd)
    res = core.validate("TraceCalls", recs, out.prop)
    by_case = {}
    for c, cl, ln in res["rejects"]:
        by_case.setdefault(c, set()).update(cl)
    viol = []
    for c, cl in sorted(by_case.items()):
        rel = cl & clauses
        if known_pair and known_pair[0] in rel and known_pair[1] not in cl:
            rel = rel - {known_pair[0]}
        if rel:
            viol.append((c, sorted(rel), 0))
    if viol:
        paths, bc = core.write_replays(out.prop, recs, viol, dict(family="replay_" + cfg))
        for c in sorted(bc)[:6]:
            out.violation(f"replayed {cfg} behaviour case {c}: clause(s) {sorted(bc[c])}", paths.get(c, "n/a"))
    out.add("evaluations", drift["n"])
    out.add("traces_validated_against_impl", drift["n"])
    out.add("replayed_model_behaviours", drift["n"])
    out.add("model_drift", drift["stream"])
    if drift["stream"]:
        msg = f"model drift: {cfg}: {drift['stream']} of {drift['n']} replayed behaviours differ from the model (informational)"
        print("INFO " + msg)
        out.notes.append(msg)
    out.cov.setdefault("dumps", []).append({"cfg": cfg, "behaviours": st["behaviours"], "replayed": drift["n"], "cached": st["cached"]})


def big_family(out, clauses):
    """Large structured inputs (hundreds to thousands of items) as hook traces."""
    trace = drive(out, "big")
    n = sum(1 for st, evs, ret in scan_hook_cases(trace) if evs is not None)
    out.add("evaluations", n)
    out.add("large_input_cases", n)
    judge(out, "big", trace, "TraceHook", clauses)
    out.add("traces_validated_against_impl", n)


def exh_family(out, clauses, algs="myers,lcs,patience"):
    """Exhaustive small scope (one representative per relabelling class, <= 3 symbols, both lengths
    up to 6 quick / 7 thorough) as hook traces, for the given algorithms."""
    trace = drive(out, "exh", extra=["--algs", algs])
    n = sum(1 for line in open(trace) if '"ev":"start"' in line)
    out.add("evaluations", n)
    out.add("exhaustive_small_scope_cases", n)
    judge(out, "exh", trace, "TraceHook", clauses)
    out.add("traces_validated_against_impl", n)
    trace.unlink()


def builder_family(out, clauses):
    """Histories of builder calls (TextDiffConfig / UnifiedDiff setters in any order), validated
    event by event against spec/abstract/Builder.tla."""
    trace = drive(out, "builder")
    res = core.validate("TraceBuilder", trace, out.prop)
    n = sum(1 for line in open(trace) if '"ev":"bstart"' in line)
    out.add("evaluations", n)
    out.add("traces_validated_against_impl", n)
    out.add("builder_histories", n)
    rej = [(c, [x for x in cl if x in clauses], ln) for c, cl, ln in res["rejects"]]
    rej = [r for r in rej if r[1]]
    if rej:
        d = core.REPLAYS / out.prop
        d.mkdir(parents=True, exist_ok=True)
        lines = open(trace).read().splitlines(True)
        for c, cl, ln in rej[:6]:
            # the case = from its bstart line to the rejected line
            a = ln - 1
            while a > 0 and '"ev":"bstart"' not in lines[a]:
                a -= 1
            p = d / f"builder_{int(time.time())}_{c}.ndjson"
            p.write_text(json.dumps({"ev": "replay_meta", "property": out.prop, "family": "builder", "clauses": cl}) + "\n" +
                         "".join(lines[a:ln]))
            out.violation(f"builder history case {c}: clause(s) {cl}", p)


def alg_cfgs(out, algs, faults=False):
    if faults:
        return [f"MCAlg_{a}_faults" + ("_t" if out.tier == "thorough" else "") for a in algs] + \
               ([f"MCAlg_{a}_faults" for a in algs] if out.tier == "thorough" else [])
    return [f"MCAlg_{a}" + ("_t" if out.tier == "thorough" else "_q") for a in algs]


def finish_counts(out):
    """states/transitions of the evidence = Tier-B model exploration where there is one"""
    if out.cov.get("model_states"):
        out.cov["states"] = out.cov["model_states"]
        out.cov["transitions"] = out.cov["model_transitions"]


# --------------------------------------------------------------------------- C01

C01_CLAUSES = {"script", "carried", "recon", "panic", "shift", "noreturn",
               "after_finish", "finish_twice", "no_finish", "ret_error"}


@prop("C01")
def c01(out):
    trace = drive(out, "c01")
    n = nt = 0
    seen = set()
    samples = []
    for st, evs, ret in scan_hook_cases(trace):
        if evs is None:
            continue
        n += 1
        N, M = st["oe"] - st["os"], st["ne"] - st["ns"]
        kinds = {e["ev"] for e in evs}
        if N > 0 and M > 0 and "equal" in kinds and kinds & {"delete", "insert", "replace"}:
            key = (st["alg"], tuple(st["old"]), tuple(st["new"]), st["os"], st["oe"], st["ns"], st["ne"], st["index"])
            if key not in seen:
                seen.add(key)
                nt += 1
                if len(samples) < 3:
                    samples.append({"start": st, "events": [[e["ev"]] + [e.get(k) for k in ("o", "n", "len")] for e in evs]})
    out.add("evaluations", n)
    out.add("distinct_nontrivial", nt)
    out.add("rule", "one evaluation = one algorithms::diff call recorded as a hook event trace and validated "
                    "event by event by TLC against spec/abstract/Script.tla; non-trivial = both ranges non-empty "
                    "and the stream has >=1 equal and >=1 change; distinct by (alg, sequences, ranges, index kind)")
    out.add("samples", samples)
    judge(out, "c01", trace, "TraceHook", C01_CLAUSES)
    out.add("traces_validated_against_impl", n)
    out.add("states", out.cov.get("trace_states", 0))
    out.add("transitions", out.cov.get("trace_lines_validated", 0))
    big_family(out, C01_CLAUSES)
    exh_family(out, C01_CLAUSES)
    p2(out, "MCAlgs.tla", alg_cfgs(out, ["myers", "lcs", "patience"]))
    p3_alg(out, ["myers", "lcs", "patience"], C01_CLAUSES, faults=False)
    finish_counts(out)


# --------------------------------------------------------------------------- family O (captured ops)

def lcs_len(a, b):
    prev = [0] * (len(b) + 1)
    for x in a:
        cur = [0]
        for j, y in enumerate(b):
            cur.append(prev[j] + 1 if x == y else max(prev[j + 1], cur[j]))
        prev = cur
    return prev[-1]


def scan_records(trace):
    with open(trace) as f:
        for line in f:
            yield json.loads(line)


def ops_check(out, clauses, nontrivial, what, known_clause=None, extra=()):
    """Run the captured-ops driver and judge the given clauses."""
    trace = drive(out, "ops", extra=extra)
    n = nt = 0
    seen = set()
    samples = []
    for r in scan_records(trace):
        n += 1
        key = (r["alg"], tuple(r["old"]), tuple(r["new"]), r["os"], r["oe"], r["ns"], r["ne"], r["entry"], r["fuel"])
        if key in seen:
            continue
        if nontrivial(r):
            seen.add(key)
            nt += 1
            if len(samples) < 3:
                samples.append({k: r[k] for k in ("alg", "entry", "old", "new", "os", "oe", "ns", "ne", "fuel", "ops")})
    out.add("evaluations", n)
    out.add("distinct_nontrivial", nt)
    out.add("rule", what)
    out.add("samples", samples)
    res = core.validate("TraceOps", trace, out.prop)
    out.add("trace_lines_validated", res["lines"])
    out.add("traces_validated_against_impl", n)
    out.add("states", res["states"])
    out.add("transitions", res["lines"])
    by_case = {}
    for c, cl, ln in res["rejects"]:
        by_case.setdefault(c, set()).update(cl)
    viol, known = [], []
    for c, cl in sorted(by_case.items()):
        rel = cl & clauses
        if known_clause and known_clause[0] in rel and known_clause[1] not in cl and "not_kf1" not in cl \
                and "raw_inexact" not in cl:
            # rejected as shipped, accepted with the swap-repair switch on
            known.append(c)
            rel = rel - {known_clause[0]}
        if rel:
            viol.append((c, sorted(rel), 0))
    if viol:
        paths, bc = core.write_replays(out.prop, trace, viol, dict(family="ops"), cap=8)
        for c in sorted(bc)[:8]:
            out.violation(f"ops case {c}: clause(s) {sorted(bc[c])}", paths.get(c, "n/a"))
        out.add("rejected_cases", len(bc))
    return trace, known


def nontriv_ops_basic(r):
    return r["oe"] > r["os"] and r["ne"] > r["ns"] and len(r["ops"]) >= 2


@prop("C02")
def c02(out):
    ops_check(out, {"valid", "apply", "identical", "ratio", "panic"},
              lambda r: nontriv_ops_basic(r) and r.get("cc", False),
              "one evaluation = one capture_diff*/TextDiff::ops call (all algorithms, slices / ranges with a panicking "
              "window lookup / TextDiff, deadline none / never / every expiry index) judged by TLC with Ops!ValidOps, "
              "ApplyOk, identical-input and ratio clauses; non-trivial = both ranges non-empty, >=2 ops and the compaction "
              "stage changed the raw script; distinct by (alg, sequences, ranges, entry point, fuel)")
    p2(out, "MCCompact.tla", ["MCCompact" + ("_t" if out.tier == "thorough" else "")])
    # (arbitrary scripts: validity only - "identical inputs give only Equal ops" is a statement about
    # the capture functions, not about what Compact does to an arbitrary script for equal sequences)
    p3_compact(out, None, {"valid", "apply", "panic"})
    finish_counts(out)


@prop("C09")
def c09(out):
    ops_check(out, {"normal"},
              lambda r: nontriv_ops_basic(r) and r.get("cc", False),
              "captured op lists judged by TLC with Ops!NormalForm (no empty op, strict Equal/non-Equal alternation, "
              "insertion before an Equal sits at its latest position); non-trivial = compaction merged or slid something; "
              "distinct by (alg, sequences, ranges, entry point, fuel)")
    trace = drive(out, "c10ops")
    res = core.validate("TraceOps", trace, out.prop)
    out.add("evaluations", res["lines"])
    out.add("traces_validated_against_impl", res["lines"])
    out.add("states", res["states"])
    rej = [(c, ["normal"], ln) for c, cl, ln in res["rejects"] if "normal" in cl]
    if rej:
        paths, bc = core.write_replays(out.prop, trace, rej, dict(family="c10ops"))
        for c in sorted(bc)[:8]:
            out.violation(f"c10ops case {c}: arbitrary script through Compact+Replace not in normal form", paths.get(c, "n/a"))
    p2(out, "MCCompact.tla", ["MCCompact" + ("_t" if out.tier == "thorough" else "")])
    p3_compact(out, None, {"normal"})
    finish_counts(out)


@prop("C11")
def c11(out):
    trace, known = ops_check(out, {"exact", "exact_rep", "accessors"},
                             lambda r: nontriv_ops_basic(r) and (r.get("swaps", 0) > 0 or r.get("cc", False)),
                             "captured op lists (as stored and as shown by old_range / new_range / tag / as_tag_tuple) judged by TLC with Ops!PositionsExact (both indices of every op equal the "
                             "items consumed so far); every case is run twice, as shipped and with the cfg(similar_verif) "
                             "swap-repair switch on, for known-finding attribution; non-trivial = a swap arm fired or the "
                             "compaction changed the script",
                             known_clause=("exact", "exact_rep"))
    if known:
        ex = core.read_cases(trace, known[:1]).get(known[0], ["?"])[0]
        r = json.loads(ex)
        out.known.append(f"KF-1 compact.rs swap arms leave the carried index of the swapped Delete/Insert stale "
                         f"({len(known)} cases rejected as shipped and accepted with the swap repair on, e.g. "
                         f"alg={r['alg']} old={r['old'][r['os']:r['oe']]} new={r['new'][r['ns']:r['ne']]} ops={r['ops']})")
        out.add("known_finding_hits", len(known))
    # model level: ExactAtEnd holds with the swap repair, "exact or a swap happened" without it
    p2(out, "MCCompact.tla", ["MCCompact", "MCCompactRepair"] + (["MCCompact_t", "MCCompactRepair_t"] if out.tier == "thorough" else []))
    expect_violation(out, "MCCompact.tla", "MCCompactWitness", "ExactAtEnd")
    finish_counts(out)


@prop("C03")
def c03(out):
    def nt(r):
        if r["alg"] == "patience" or r["fuel"] != -2:
            return False
        a, b = r["old"][r["os"]:r["oe"]], r["new"][r["ns"]:r["ne"]]
        if len(a) * len(b) > 250000:
            return False
        L = lcs_len(a, b)
        return 0 < L < min(len(a), len(b))
    ops_check(out, {"minimal", "ratio_formula"}, nt,
              "captured ops (Myers, LCS, no deadline): Cost = N+M-2*LcsLen, EqualTotal = LcsLen and ratio = 2L/(N+M), with "
              "LcsLen computed by TLC from an independent fold (Oracles!LcsLen); raw callback streams: deleted+inserted = "
              "N+M-2*LcsLen; non-trivial = 0 < L < min(N,M); distinct by (alg, sequences, ranges, entry point)",
              extra=["--deadline", "0"])
    trace = drive(out, "c01")
    n = sum(1 for st, evs, ret in scan_hook_cases(trace) if evs is not None and st["alg"] != "patience")
    out.add("evaluations", n)
    judge(out, "c01", trace, "TraceHook", {"minimal"})
    out.add("traces_validated_against_impl", n)
    big_family(out, {"minimal"})
    exh_family(out, {"minimal"}, algs="myers,lcs")
    p2(out, "MCAlgs.tla", alg_cfgs(out, ["myers", "lcs"]))
    p2(out, "MCCompact.tla", ["MCCompact"])
    p3_alg(out, ["myers", "lcs"], {"minimal"}, faults=False)
    finish_counts(out)


@prop("C15")
def c15(out):
    def nt(r):
        if r["alg"] != "patience" or r["fuel"] != -2:
            return False
        a, b = r["old"][r["os"]:r["oe"]], r["new"][r["ns"]:r["ne"]]
        if len(a) + len(b) > 2000:
            return False
        u = [x for x in a if a.count(x) == 1 and b.count(x) == 1]
        v = [x for x in b if x in u]
        return len(u) >= 2 and u != v and lcs_len(u, v) >= 2
    ops_check(out, {"anchors"}, nt,
              "Patience without deadline, captured ops and raw streams: number of common-unique items covered by Equal "
              "segments >= K, K = LcsLen of the two lists of common-unique items (Oracles!AnchorOptimum, evaluated by TLC); "
              "non-trivial = K >= 2 and the common-unique items are not in the same order on both sides",
              extra=["--deadline", "0"])
    trace = drive(out, "c01")
    n = sum(1 for st, evs, ret in scan_hook_cases(trace) if evs is not None and st["alg"] == "patience")
    out.add("evaluations", n)
    judge(out, "c01", trace, "TraceHook", {"anchors"})
    out.add("traces_validated_against_impl", n)
    big_family(out, {"anchors"})
    exh_family(out, {"anchors"}, algs="patience")
    p2(out, "MCAlgs.tla", alg_cfgs(out, ["patience"]))
    p3_alg(out, ["patience"], {"anchors"}, faults=False)
    finish_counts(out)


# --------------------------------------------------------------------------- C07 C08 C10 (fault / adapter families)

def hook_family(out, family, clauses, nontrivial, rule, spec="TraceHook"):
    trace = drive(out, family)
    n = nt = 0
    seen = set()
    samples = []
    for st, evs, ret in scan_hook_cases(trace):
        n += 1
        if evs is None:
            continue
        if nontrivial(st, evs, ret):
            key = (st["alg"], tuple(st["old"]), tuple(st["new"]), st["os"], st["oe"], st["ns"], st["ne"],
                   st["index"], st["stack"], st["fuel"], st["fail_at"], json.dumps(st.get("in")))
            if key not in seen:
                seen.add(key)
                nt += 1
                if len(samples) < 3:
                    samples.append({"start": st, "events": [{k: v for k, v in e.items() if k != "cmps"} for e in evs][:12]})
    out.add("evaluations", n)
    out.add("distinct_nontrivial", nt)
    out.add("rule", rule)
    out.add("samples", samples)
    judge(out, family, trace, spec, clauses)
    out.add("traces_validated_against_impl", n)
    out.add("states", out.cov.get("trace_states", 0))
    out.add("transitions", out.cov.get("trace_lines_validated", 0))
    return trace


C07_CLAUSES = {"script", "carried", "recon", "panic", "noreturn", "after_finish", "finish_twice", "no_finish",
               "ret_error", "afterexpiry", "probe_gap", "never_eq", "plumbing"}


@prop("C07")
def c07(out):
    def nt(st, evs, ret):
        return st["fuel"] >= 0 and st["oe"] > st["os"] and st["ne"] > st["ns"] and \
            any(e["ev"] == "probe" and e["exp"] for e in evs)
    hook_family(out, "c07", C07_CLAUSES, nt,
                "fault enumeration over the deadline: for every input the run with a never-expiring virtual deadline counts the "
                "probes P, then every expiry index k in 0..P (sampled above 8 items) is run under the virtual clock and the event "
                "trace (incl. probe events with the comparison counter) is validated by TLC against Script.tla plus the post-expiry "
                "work bound cmps(ret)-cmps(first expired probe) <= 4(N+M+1); `same` records compare no-deadline vs never-expiring "
                "deadline and builder/capture plumbing vs the algorithm-level call; non-trivial = expiry actually struck on "
                "non-empty ranges; distinct by (alg, input, ranges, stack, fuel)")
    out.level = "model_checking"
    p2(out, "MCAlgs.tla", alg_cfgs(out, ["myers", "lcs", "patience"], faults=True))
    p3_alg(out, ["myers", "lcs", "patience"], C07_CLAUSES - {"never_eq", "plumbing"}, faults=True, keep=lambda b: b["failed"] == -1)
    builder_family(out, {"builder_deadline"})
    finish_counts(out)


C08_CLAUSES = {"after_finish", "finish_twice", "no_finish", "finish_leaked", "after_error", "ret_error",
               "nofinish_forward", "mutref_forward", "default_replace", "noreturn"}


@prop("C08")
def c08(out):
    def nt(st, evs, ret):
        hook = [e for e in evs if e["ev"] != "probe"]
        return st["fail_at"] >= 0 and hook and hook[-1].get("err") and hook[-1]["ev"] != "finish"
    hook_family(out, "c08", C08_CLAUSES, nt,
                "fault enumeration over the failing hook call: for every input, algorithm and adapter stack {none, &mut, NoFinishHook, "
                "Replace, Replace over a hook without replace, Compact, Compact+Replace (both hook kinds)} the un-failed run counts the "
                "calls C, then every k in 0..C is run with a hook failing at call k (also combined with expiry indices); TLC validates "
                "finish-once-and-last, nothing-after-error and error identity on every trace; comparison records check NoFinishHook / "
                "&mut forwarding and the default replace = delete + insert; non-trivial = a call before finish failed")
    p2(out, "MCAlgs.tla", alg_cfgs(out, ["myers", "lcs", "patience"], faults=True))
    p3_alg(out, ["myers", "lcs", "patience"], C08_CLAUSES, faults=True)
    finish_counts(out)


C10_CLAUSES = {"script", "carried", "recon", "panic", "noreturn", "after_finish", "finish_twice", "no_finish",
               "ret_error", "totals", "carried_exact", "run_split"}


@prop("C10")
def c10(out):
    def nt(st, evs, ret):
        outp = [[{"equal": 0, "delete": 1, "insert": 2, "replace": 3, "finish": 4}[e["ev"]]] for e in evs]
        return len(outp) - 1 != len(st.get("in", []))
    hook_family(out, "c10", C10_CLAUSES | {"input_invalid"}, nt,
                "random valid edit scripts (any interleaving of delete/insert runs, split equal runs; the input itself is checked by "
                "TLC to be a Script behaviour) for all pairs of the bound are fed through Compact, Replace and Compact+Replace; the "
                "output event trace is validated by TLC against Script.tla, with deleted/inserted totals equal to the input's and "
                "completion at finish; non-trivial = the adapter changed the number of calls; distinct by (input, script, stack)")
    # both adapters => normal form (C09 clause evaluated on the captured output)
    trace = drive(out, "c10ops")
    res = core.validate("TraceOps", trace, out.prop)
    out.add("evaluations", res["lines"])
    out.add("traces_validated_against_impl", res["lines"])
    out.add("states", res["states"])
    rej = [(c, [x for x in cl if x in ("normal", "valid", "panic")], ln) for c, cl, ln in res["rejects"]]
    rej = [r for r in rej if r[1]]
    if rej:
        paths, bc = core.write_replays(out.prop, trace, rej, dict(family="c10ops"))
        for c in sorted(bc)[:8]:
            out.violation(f"c10ops case {c}: clause(s) {sorted(bc[c])}", paths.get(c, "n/a"))
    p2(out, "MCCompact.tla", ["MCCompact"] + (["MCCompact_t", "MCCompact_t3"] if out.tier == "thorough" else []))
    p3_compact(out, C10_CLAUSES, {"normal", "valid", "panic"})
    if out.tier == "thorough":
        # random behaviours of the composed model beyond the exhaustive bound (len <= 5, 3 letters)
        sim = core.tlc_mc(MC / "MCCompact.tla", MC / "MCCompact_sim.cfg", out.prop, workers=10, timeout=900,
                          coverage=False, simulate="num=30000", extra=["-depth", "150"])
        if not sim["ok"]:
            raise ToolError("simulation of MCCompact_sim found an invariant violation (specification regression):\n" + sim["out"][-2000:])
        out.cov["simulation"] = {"cfg": "MCCompact_sim", "behaviours": 30000, "states_generated": sim["states"]}
    # unbounded-length argument for Replace's index arithmetic (Apalache, inductive invariant),
    # bound to the replayed Replace model by TLC (MCReplaceEq)
    st = core.apalache_inductive(SPEC / "proof" / "ReplaceInd.tla", out.prop)
    if st["discharged"] != st["total"]:
        raise ToolError(f"Apalache did not discharge the inductive invariant of ReplaceInd: {st['obligations']}")
    out.cov["apalache"] = {"spec": "spec/proof/ReplaceInd.tla", "obligations": st["obligations"], "cached": st["cached"],
                           "checker_cmd": st["checker_cmd"]}
    p2(out, "MCReplaceEq.tla", ["MCReplaceEq"], coverage=False)
    # step-level conformance of the Compact model with the real clean-up (diagnostic)
    strace = drive(out, "steps")
    sres = core.validate("TraceSteps", strace, out.prop)
    d = sum(1 for c, cl, ln in sres["rejects"] if "model_drift" in cl)
    out.add("step_traces_conforming_to_model", sres["lines"] - d)
    out.add("model_drift", d)
    pan = [(c, ["panic"], ln) for c, cl, ln in sres["rejects"] if "panic" in cl]
    if pan:
        paths, bc = core.write_replays(out.prop, strace, pan, dict(family="steps"))
        for c in sorted(bc)[:4]:
            out.violation(f"steps case {c}: compaction panicked", paths.get(c, "n/a"))
    if d:
        msg = f"model drift: {d} recorded clean-up step sequences differ from the Compact model (informational)"
        print("INFO " + msg)
        out.notes.append(msg)
    finish_counts(out)


# --------------------------------------------------------------------------- call-record families

def calls_family(out, family, clauses, nontrivial, rule, sample_keys=None, spec="TraceCalls", extra=(), nounicode=False,
                 name=None):
    """Generic check of a call-record family: run the driver, count, validate with TLC."""
    trace = drive(out, family, extra=extra, nounicode=nounicode, name=name)
    n = nt = 0
    seen = set()
    samples = []
    for r in scan_records(trace):
        n += 1
        if nontrivial(r):
            key = json.dumps({k: v for k, v in r.items() if k != "case"}, sort_keys=True)
            if key not in seen:
                seen.add(key)
                nt += 1
                if len(samples) < 3:
                    samples.append({k: r[k] for k in (sample_keys or r.keys()) if k in r})
    out.add("evaluations", n)
    out.add("distinct_nontrivial", nt)
    out.add("rule", rule)
    out.add("samples", samples)
    res = core.validate(spec, trace, out.prop)
    out.add("traces_validated_against_impl", n)
    out.add("states", res["states"])
    out.add("transitions", res["lines"])
    rej = [(c, [x for x in cl if x in clauses], ln) for c, cl, ln in res["rejects"]]
    rej = [r for r in rej if r[1]]
    if rej:
        paths, bc = core.write_replays(out.prop, trace, rej, dict(family=family, nounicode=nounicode))
        for c in sorted(bc)[:8]:
            out.violation(f"{family} case {c}: clause(s) {sorted(bc[c])}", paths.get(c, "n/a"))
        out.add("rejected_cases", len(bc))
    # behaviour the specification covers beyond the listed properties: reported, never a verdict
    beyond = [(c, [x for x in cl if x.startswith("beyond_")]) for c, cl, ln in res["rejects"]]
    beyond = [b for b in beyond if b[1]]
    out.cov["beyond_properties_rejections"] = out.cov.get("beyond_properties_rejections", 0) + len(beyond)
    if beyond:
        print(f"INFO property={out.prop} beyond-properties: {len(beyond)} record(s) rejected by clause(s) "
              f"{sorted({x for _, cl in beyond for x in cl})} (specified behaviour outside the listed properties; not a verdict), "
              f"e.g. {family} case {beyond[0][0]}", flush=True)
    return trace, res


@prop("C19")
def c19(out):
    calls_family(out, "c19", {"work", "panic"}, lambda r: r["n"] + r["m"] >= 200,
                 "comparison counts (counting PartialEq element type) of Myers and Patience on near-identical, block-move, periodic, "
                 "small/large-alphabet random, unrelated and one-sided inputs up to 3000 items, judged by TLC with "
                 "Work!WorkBound: cmps <= 4(N+M+1)(D+1), D from the TLA+ LCS oracle where the sequences are recorded (<=300 items, "
                 "Myers) and the reported script size otherwise; plus the same bound on every exhaustive small pair of the C01 "
                 "family; non-trivial = N+M >= 200",
                 sample_keys=("alg", "family", "n", "m", "d", "cmps"))
    trace = drive(out, "c01")
    n = sum(1 for st, evs, ret in scan_hook_cases(trace) if evs is not None and st["alg"] != "lcs")
    out.add("evaluations", n)
    judge(out, "c01", trace, "TraceHook", {"work"})
    out.add("traces_validated_against_impl", n)
    big_family(out, {"work"})
    out.add("states", out.cov.get("trace_states", 0))
    p2(out, "MCAlgs.tla", alg_cfgs(out, ["myers", "patience"]))
    p3_alg(out, ["myers", "patience"], {"work"}, faults=False)
    finish_counts(out)


@prop("C12")
def c12(out):
    def nt(r):
        ch = [o for o in r["ops"] if o[0] != 0]
        n = r["n"]
        return len(ch) >= 2 and any(o[0] == 0 and o[2] in (n, 2 * n, 2 * n + 1) for o in r["ops"])
    calls_family(out, "c12", {"grouping", "panic"}, nt,
                 "group_diff_ops on every alternating op list with <=5 ops (6 thorough), run lengths from {1,n,n+1,2n,2n+1,2n+2}, "
                 "radius 0..3, leading/trailing change or Equal, all change kinds, plus random longer lists and real diffs; the "
                 "returned groups are compared by TLC with Grouping!Expected, a declarative construction from the statement "
                 "(partition of the changes at gaps > 2n, min(n, L) context); non-trivial = >=2 changes and an Equal run of length "
                 "n, 2n or 2n+1", sample_keys=("ops", "n", "groups"))
    p2(out, "MCGroup.tla", ["MCGroup" + ("_t" if out.tier == "thorough" else "")])
    p3_group(out)
    finish_counts(out)


@prop("C13")
def c13(out):
    def nt(r):
        if r["ev"] == "expand1":
            o = r["op"]
            return o[1] != o[3] and o[2] != o[4] and o[2] + o[4] > 0
        return len(r["ops"]) >= 3
    calls_family(out, "c13", {"changes", "slices", "reapply", "concat", "panic"}, nt,
                 "DiffOp::iter_changes / iter_slices / apply_to_hook on single ops of all four kinds with arbitrary in-bounds offsets "
                 "(old offset != new offset, different lengths, zero lengths) and TextDiff::iter_all_changes vs per-op iter_changes on "
                 "real diffs and on arbitrary scripts; compared by TLC with Expansion!ExpectedChanges / ExpectedSlices; non-trivial = "
                 "offsets and lengths differ between the sides", sample_keys=("ev", "old", "new", "op", "changes", "slices"))
    p2(out, "MCIter.tla", ["MCIter" + ("_t" if out.tier == "thorough" else "")])
    finish_counts(out)


@prop("C06")
def c06(out):
    def nt(r):
        if r["ev"] != "tokens":
            return False
        inp = r["input"]
        return 13 in inp or not all(r["valid"]) or any(b >= 0xC2 for b in inp)
    calls_family(out, "c06", {"lossless", "shape", "str_bytes_same", "panic"}, nt,
                 "all six tokenizers x {str, [u8]} on every string of <=3 symbols (4 thorough) over the interesting-character alphabet, "
                 "seeded random strings, and byte strings with invalid UTF-8 (0xFF, truncated 2/3/4-byte sequences, surrogate, overlong, "
                 "stray continuation) in every context; TLC judges losslessness, non-emptiness and the token shape (Tokens.tla: own UTF-8 "
                 "decoding and White_Space set) and str = bytes on valid UTF-8; non-trivial = input has a CR, a multi-byte or an invalid "
                 "sequence", sample_keys=("kind", "mode", "input", "tokens"))
    # the same family in the build of the library without the `unicode` feature (bytes + inline only)
    core.build_harness(nounicode=True)
    calls_family(out, "c06", {"lossless", "shape", "str_bytes_same", "panic"}, nt, out.cov["rule"],
                 sample_keys=("kind", "mode", "input", "tokens"), nounicode=True, name="c06_nounicode")
    p2(out, "MCTokens.tla", ["MCTokens" + ("_t" if out.tier == "thorough" else "")])
    p3_fn(out, "MCTokens.tla", "MCTokensDump", {"lossless", "shape", "str_bytes_same", "panic"})
    finish_counts(out)


@prop("C04")
def c04(out):
    def nt(r):
        if r["ev"] == "textchanges_tok":
            return len(r["old_tok"]) > 65536
        return r["ntok_old"] >= 2 and r["ntok_new"] >= 2 and any(c[0] != 0 for c in r["all"])
    calls_family(out, "c04", {"recon_old", "recon_new", "index_shape", "index_seq", "iter_agree", "panic"}, nt,
                 "TextDiff over 5 tokenizers x 3 algorithms x {str,[u8]} on all pairs of short strings over the interesting-character "
                 "alphabet, mutated random texts (incl. invalid UTF-8 for bytes) and line texts; iter_all_changes and per-op iter_changes "
                 "are recorded and TLC checks byte-exact reconstruction of both inputs, index shape and consecutive numbering "
                 "(TextA!TextChangesViol); non-trivial = >=2 tokens per side and >=1 change",
                 sample_keys=("alg", "kind", "mode", "old", "new", "all"))
    out.level = "exploration"


@prop("C14")
def c14(out):
    def nt(r):
        if r["ev"] == "textops":
            return max(r["ntok_old"], r["ntok_new"]) > 100 and r["text_ops"] != [] and any(o[0] != 0 for o in r["text_ops"])
        if r["ev"] == "identify":
            a = r["old"][r["os"]:r["oe"]]
            b = r["new"][r["ns"]:r["ne"]]
            return bool(set(a) & set(b)) and len(a) + len(b) > len(set(a) | set(b))
        return False
    calls_family(out, "c14", {"ops_differ", "algorithm", "newline_flag", "ranges", "ids", "panic"}, nt,
                 "TextDiff::ops vs capture_diff_slices on the token slices (both recorded, compared by TLC: TextA!TextOpsViol) for all "
                 "tokenizers x algorithms x newline_terminated override, small texts and texts with 90..135 tokens straddling the "
                 "100-token switch to IdentifyDistinct; IdentifyDistinct::<u8|u16|u32|u64> on padded sequences with non-zero range "
                 "starts incl. >=64 items with repeats: ids equal iff items equal within and across sides, ranges kept "
                 "(TextA!IdentifyViol); non-trivial = a side has > 100 tokens and the diff has a change, resp. an item repeated across "
                 "sides", sample_keys=("ev", "alg", "kind", "mode", "ntok_old", "ntok_new", "text_ops", "int", "old_ids", "new_ids"))
    p2(out, "MCIdentify.tla", ["MCIdentify" + ("_t" if out.tier == "thorough" else "")], coverage=False)
    builder_family(out, {"builder_algorithm", "builder_newline", "panic"})
    finish_counts(out)


@prop("C17")
def c17(out):
    def nt(r):
        if r["ev"] == "remap":
            return len(r["ops"]) >= 2 and any(b >= 0x80 for b in r["old"] + r["new"])
        return r["ev"] == "helper" and len(r.get("result", [])) >= 2
    calls_family(out, "c17", {"slice_tokens", "recon", "substring", "empty_slice", "panic"}, nt,
                 "TextDiffRemapper::iter_slices for every op of text diffs (5 tokenizers x 3 algorithms x {str,[u8]}, multi-byte and "
                 "invalid UTF-8) recorded with the byte offset of each returned slice in the original text, and the one-call helpers "
                 "diff_chars/words/unicode_words/graphemes/lines/slices; TLC checks tags and bytes against the slice-wise token "
                 "expansion, cumulative offsets, reconstruction of both texts, no empty slice, no panic (TextA!RemapViol/HelperViol); "
                 "non-trivial = >=2 ops and a multi-byte token", sample_keys=("ev", "alg", "kind", "fn", "mode", "old", "new", "result"))
    p2(out, "MCRemap.tla", ["MCRemap" + ("_t" if out.tier == "thorough" else "")], coverage=False)
    finish_counts(out)


@prop("C20")
def c20(out):
    def nt(r):
        if r["ev"] != "determ":
            return False
        a, b = r["old"], r["new"]
        u = [x for x in a if a.count(x) == 1 and b.count(x) == 1]
        return len(u) >= 2 if r["alg"] == "patience" else len(a) > 1 and len(b) > 1
    calls_family(out, "c20", {"determinism", "str_bytes_ops", "harness_relabel"}, nt,
                 "each case = capture_diff_slices run on the calling thread, on two fresh threads (fresh RandomState keys) and on two "
                 "order-preserving injective relabellings (fresh threads); TLC checks all op lists are equal and that each relabelling "
                 "really preserves the equality and order pattern (TextA!DetermViol); plus str vs same bytes ops for line/word/char "
                 "tokenizers; non-trivial = >=2 common unique items (Patience) / both sides longer than 1",
                 sample_keys=("alg", "old", "new", "variants", "runs"))
    core.build_harness(nounicode=True)
    calls_family(out, "c20", {"determinism", "str_bytes_ops", "harness_relabel"}, nt, out.cov["rule"],
                 sample_keys=("alg", "old", "new", "variants", "runs"), nounicode=True, name="c20_nounicode")
    # the Patience model draws the collection order of unique()'s HashMap nondeterministically
    p2(out, "MCAlgs.tla", alg_cfgs(out, ["patience"]))
    finish_counts(out)


@prop("C18")
def c18(out):
    def nt(r):
        return len(r["result"]) >= 2 or (r["p"] > 0 and len(r["result"]) >= 1 and r["n"] > 0)
    calls_family(out, "c18", {"closematch", "panic"}, nt,
                 "get_close_matches (str and [u8]) on words derived from base words by few edits (up to 20 chars, multi-byte, empty), "
                 "candidate lists with duplicates / empty strings / the word itself, n in 0..5, cutoffs as rationals p/q incl. 0, 1 and "
                 "the exact ratio of one candidate; TLC recomputes every ratio with the LCS oracle and checks the result is the first n "
                 "of the ranking by (ratio desc, lexicographic) among candidates with ratio >= cutoff (CloseMatchesA.tla, integer "
                 "cross-multiplication); non-trivial = >=2 results, or >=1 under a positive cutoff",
                 sample_keys=("word", "cands", "n", "p", "q", "result"))
    p2(out, "MCClose.tla", ["MCClose" + ("_t" if out.tier == "thorough" else "")], coverage=False)
    p3_fn(out, "MCClose.tla", "MCCloseDump", {"closematch", "panic"})
    finish_counts(out)


@prop("C16")
def c16(out):
    def nt(r):
        return any(o["tag"] == 3 and any(seg[0] == 1 for c in o["inline"] for seg in c[3]) for o in r["per_op"])
    trace, res = calls_family(out, "c16", {"tags_indices", "segments", "emphasis", "missing_newline", "panic"}, nt,
                 "TextDiff::iter_inline_changes_deadline for every op of line diffs whose replaced lines are similar (so the inline "
                 "differ engages), with multi-byte words, mixed terminators, missing final newline, invalid UTF-8 in bytes mode, "
                 "inline deadline none / already expired (virtual clock, fuel 0); plain and inline expansions are both recorded and "
                 "compared by TLC (InlineA.tla); non-trivial = a Replace op produced at least one emphasised segment",
                 sample_keys=("alg", "mode", "expired", "old", "new", "per_op"))
    # the cfg(not(feature = "unicode")) branch of the inline differ
    core.build_harness(nounicode=True)
    calls_family(out, "c16", {"tags_indices", "segments", "emphasis", "missing_newline", "panic"}, nt,
                 out.cov["rule"], sample_keys=("alg", "mode", "expired", "old", "new"), nounicode=True, name="c16_nounicode")
    p2(out, "MCInline.tla", ["MCInline"], coverage=False)
    p3_inline(out)
    finish_counts(out)


@prop("C05")
def c05(out):
    def nt(r):
        return r["out_w"].count(64) >= 4 and r["hint"]
    trace = drive(out, "c05")
    n = nt_n = multi = crs = nonl = 0
    seen = set()
    samples = []
    for r in scan_records(trace):
        n += 1
        if r.get("ev") == "udiff" and r["hint"] and r["out_w"]:
            key = json.dumps([r["old"], r["new"], r["radius"], r["header"], r["mode"], r["alg"]])
            if key not in seen:
                seen.add(key)
                nt_n += 1
                txt = bytes(r["out_w"])
                multi += txt.count(b"@@ -") >= 2
                crs += b"\r" in txt
                nonl += b"\\ No newline" in txt
                if len(samples) < 3 and len(txt) < 200:
                    samples.append({"old": bytes(r["old"]).decode("latin1"), "new": bytes(r["new"]).decode("latin1"),
                                    "radius": r["radius"], "out": txt.decode("latin1")})
    out.add("evaluations", n)
    out.add("distinct_nontrivial", nt_n)
    out.add("nontrivial_multi_hunk", multi)
    out.add("nontrivial_cr_lines", crs)
    out.add("nontrivial_missing_newline", nonl)
    out.add("rule", "one evaluation = one rendering (to_writer, Display and the per-hunk writers) of a line diff: all pairs of texts of "
                    "<=2 lines (3 thorough) over {a LF, b LF, a CRLF, b CR, a} plus random line texts (mixed terminators, missing final "
                    "newline, invalid UTF-8 in bytes mode), radius 0..3, header on/off, 3 algorithms, str and [u8]; TLC parses the bytes "
                    "with Patch.tla and applies them strictly to old; non-trivial = at least one hunk rendered with the newline hint on; "
                    "counted separately: >=2 hunks, CR-terminated lines, missing-newline marker")
    out.add("samples", samples)
    res = core.validate("TraceCalls", trace, out.prop)
    out.add("traces_validated_against_impl", n)
    out.add("states", res["states"])
    out.add("transitions", res["lines"])
    by_case = {}
    for c, cl, ln in res["rejects"]:
        by_case.setdefault(c, set()).update(cl)
    viol, known = [], []
    for c, cl in sorted(by_case.items()):
        rel = cl & {"patch", "patch_rep", "patch_huge", "writer_display", "writer_hunks", "writer_sink", "panic"}
        if "patch" in rel and "patch_rep" not in rel and "not_kf2" not in cl:
            # rejected as shipped, accepted with the swap repair on, and byte for byte what the
            # known mechanism (header extents from the first / last op) renders from the ops
            known.append(c)
            rel.discard("patch")
        if rel:
            viol.append((c, sorted(rel), 0))
    if viol:
        paths, bc = core.write_replays(out.prop, trace, viol, dict(family="c05"))
        for c in sorted(bc)[:8]:
            out.violation(f"c05 case {c}: clause(s) {sorted(bc[c])}", paths.get(c, "n/a"))
    if known:
        r = json.loads(core.read_cases(trace, known[:1])[known[0]][0])
        out.known.append("KF-2 udiff.rs hunk header positions computed from the stale carried indices left by the compact.rs swap "
                         f"arms ({len(known)} renderings rejected as shipped and accepted with the swap repair on, e.g. "
                         f"old={bytes(r['old'])!r} new={bytes(r['new'])!r} radius={r['radius']} -> {bytes(r['out_w'])!r})")
        out.add("known_finding_hits", len(known))
    # composed model Myers -> Compact -> Replace -> group -> render against the Patch acceptor
    sfx = "_t" if out.tier == "thorough" else ""
    p2(out, "MCUdiff.tla", ["MCUdiff" + sfx, "MCUdiffRepair" + sfx], coverage=False)
    expect_violation(out, "MCUdiff.tla", "MCUdiffWitness", "AlwaysAccepted")
    p3_fn(out, "MCUdiff.tla", "MCUdiffDump", {"patch", "patch_rep", "patch_huge", "writer_display", "writer_hunks", "writer_sink", "panic"},
          known_pair=("patch", "patch_rep"))
    builder_family(out, {"builder_render"})
    finish_counts(out)


# --------------------------------------------------------------------------- setup / selftest / replay

def setup():
    core.build_harness()
    core.build_harness(nounicode=True)
    import subprocess
    bad = 0
    for d in ("abstract", "impl", "trace", "mc", "proof"):
        for p in sorted((SPEC / d).glob("*.tla")):
            r = subprocess.run(["java", "-DTLA-Library=" + core.TLA_LIB, "-cp", core.JAVA_CP, "tla2sany.SANY", str(p)],
                               capture_output=True, text=True, cwd=str(p.parent))
            ok = r.returncode == 0 and "Semantic errors" not in r.stdout and "Parsing or semantic analysis failed" not in r.stdout \
                and "***Parse Error***" not in r.stdout
            log(f"[sany] {p.name}: {'ok' if ok else 'FAILED'}")
            if not ok:
                log(r.stdout[-2000:])
                bad += 1
    if bad:
        return 2
    # warm the model-checking / behaviour-dump caches (they do not depend on /repo)
    from concurrent.futures import ThreadPoolExecutor
    jobs = [("mc", "MCAlgs.tla", f"MCAlg_{a}{sfx}") for a in ("myers", "lcs", "patience") for sfx in ("_q", "_faults")]
    jobs += [("mc", "MCCompact.tla", "MCCompact"), ("mc", "MCCompact.tla", "MCCompactRepair"),
             ("mc", "MCGroup.tla", "MCGroup"), ("mc", "MCIter.tla", "MCIter"), ("mc", "MCTokens.tla", "MCTokens"),
             ("mcn", "MCUdiff.tla", "MCUdiff"), ("mcn", "MCUdiff.tla", "MCUdiffRepair"),
             ("mcn", "MCIdentify.tla", "MCIdentify"), ("mcn", "MCClose.tla", "MCClose"),
             ("mcn", "MCRemap.tla", "MCRemap"), ("mcn", "MCInline.tla", "MCInline")]
    jobs += [("dump", "MCAlgs.tla", f"MCAlg_{a}{sfx}") for a in ("myers", "lcs", "patience") for sfx in ("_dump0", "_dump")]
    jobs += [("dump", "MCCompact.tla", "MCCompactDump"), ("dump", "MCGroup.tla", "MCGroupDump"), ("dump", "MCInline.tla", "MCInlineDump"),
             ("dump", "MCUdiff.tla", "MCUdiffDump"), ("dump", "MCTokens.tla", "MCTokensDump"), ("dump", "MCClose.tla", "MCCloseDump")]

    def run(j):
        kind, spec, cfg = j
        if kind in ("mc", "mcn"):
            st = core.tlc_mc_cached(MC / spec, MC / (cfg + ".cfg"), "setup_" + cfg, workers=4, coverage=kind == "mc")
            return cfg, st["ok"]
        core.tlc_dump(MC / spec, MC / (cfg + ".cfg"), "setup_" + cfg, workers=2)
        return cfg, True
    with ThreadPoolExecutor(max_workers=4) as ex:
        for cfg, ok in ex.map(run, jobs):
            log(f"[setup] {cfg}: {'ok' if ok else 'FAILED'}")
            if not ok:
                bad += 1
    return 2 if bad else 0


SPEC_OF_EV = {"start": "TraceHook", "same": "TraceHook", "expand": "TraceHook", "drop4": "TraceHook", "shiftcmp": "TraceHook",
              "ops": "TraceOps", "cleanup": "TraceSteps"}
HOOK_EVS = ("equal", "delete", "insert", "replace", "finish", "probe", "ret", "panic", "drift")


def validate_mixed(trace, tag):
    """Validate a trace that may mix record types: route every case to its trace spec."""
    wd = WORK / tag
    wd.mkdir(parents=True, exist_ok=True)
    files = {}
    cur = None
    with open(trace) as f:
        for line in f:
            ev = core.EV_RE.search(line).group(1)
            if ev == "replay_meta":
                continue
            if ev not in HOOK_EVS:
                cur = SPEC_OF_EV.get(ev, "TraceCalls")
            if cur is None:
                continue
            files.setdefault(cur, []).append(line)
    rejects = []
    for spec, lines in files.items():
        p = wd / f"mixed_{spec}.ndjson"
        p.write_text("".join(lines))
        res = core.validate(spec, p, tag)
        rejects += [(spec, c, cl, ln, lines[ln - 1]) for c, cl, ln in res["rejects"]]
    return rejects


def replay(pid, path):
    """Re-run one recorded case against the current /repo and show the verdict of the specification."""
    wd = WORK / pid
    wd.mkdir(parents=True, exist_ok=True)
    meta = {}
    with open(path) as f:
        first = f.readline()
        if '"replay_meta"' in first:
            meta = json.loads(first)
    out = wd / "rerun.ndjson"
    if meta.get("nounicode"):
        core.build_harness(nounicode=True)
    rc, err = core.run_sv(["rerun", "x", "--in", path, "--out", out], nounicode=bool(meta.get("nounicode")))
    if rc != 0:
        print(f"VIOLATION property={pid} replay={path}   # the harness aborted or hung while re-running the case (rc={rc})")
        return 1
    print(f"# replay of {path} (recorded clauses: {meta.get('clauses')}) against the current /repo")
    for line in open(out):
        print("  " + (line.strip() if len(line) < 400 else line[:400] + " ..."))
    rej = validate_mixed(out, pid)
    known_pair = {"C11": ("exact", "exact_rep"), "C05": ("patch", "patch_rep")}.get(pid)
    real = []
    for spec, c, cl, ln, line in rej:
        cl = set(cl)
        if known_pair and known_pair[0] in cl and known_pair[1] not in cl and "not_kf2" not in cl and "not_kf1" not in cl \
                and "raw_inexact" not in cl:
            print(f"KNOWN-FINDING: property={pid} line {ln}: rejected as shipped ({known_pair[0]}), accepted with the swap repair on "
                  f"(call-site attribution to {'KF-1' if pid == 'C11' else 'KF-2'})")
            cl = cl - {known_pair[0]}
        if meta.get("clauses"):
            # only the clauses this replay file was written for (plus their attribution partner) count
            cl = cl & (set(meta["clauses"]) | ({known_pair[1]} if known_pair else set()))
        if cl:
            real.append((spec, ln, sorted(cl)))
    if not real:
        print(f"OK property={pid} replay: the re-run case is accepted by the specification")
        return 0
    for spec, ln, cl in real:
        print(f"REJECTED by {spec} at line {ln}: clause(s) {cl}")
    print(f"VIOLATION property={pid} replay={path}")
    return 1


def selftest():
    """Binding self-test: corrupt one field / drop one event of a recorded trace and require
    TLC to reject exactly there, and to accept the uncorrupted trace."""
    core.build_harness()
    wd = WORK / "selftest"
    wd.mkdir(parents=True, exist_ok=True)
    failures = 0

    def expect(name, trace, want_reject):
        nonlocal failures
        rej = validate_mixed(trace, "selftest")
        ok = bool(rej) == want_reject
        log(f"[selftest] {name}: {'rejected' if rej else 'accepted'} ({len(rej)} rejection(s)) -> {'ok' if ok else 'UNEXPECTED'}")
        if not ok:
            failures += 1

    # hook traces
    t = wd / "c01.ndjson"
    core.run_sv(["drive", "c01", "--out", t, "--tier", "quick", "--seed", 7, "--nrand", 50])
    lines = open(t).read().splitlines(True)[-3000:]
    while lines and core.EV_RE.search(lines[0]).group(1) not in ("start", "shiftcmp"):
        lines.pop(0)
    while lines and core.EV_RE.search(lines[-1]).group(1) not in ("ret", "panic", "shiftcmp"):
        lines.pop()
    (wd / "h_ok.ndjson").write_text("".join(lines))
    expect("hook trace as recorded", wd / "h_ok.ndjson", False)
    idx = [i for i, l in enumerate(lines) if '"ev":"equal"' in l][3]
    bad = list(lines)
    r = json.loads(bad[idx]); r["o"] += 1; bad[idx] = json.dumps(r, separators=(",", ":")) + "\n"
    (wd / "h_bad1.ndjson").write_text("".join(bad))
    expect("hook trace with one corrupted index", wd / "h_bad1.ndjson", True)
    idx = [i for i, l in enumerate(lines) if '"ev":"delete"' in l][5]
    bad = lines[:idx] + lines[idx + 1:]
    (wd / "h_bad2.ndjson").write_text("".join(bad))
    expect("hook trace with one dropped event", wd / "h_bad2.ndjson", True)
    idx = [i for i, l in enumerate(lines) if '"ev":"finish"' in l][10]
    bad = lines[:idx] + [lines[idx]] + lines[idx:]
    (wd / "h_bad3.ndjson").write_text("".join(bad))
    expect("hook trace with a duplicated finish", wd / "h_bad3.ndjson", True)
    # ops records
    t = wd / "ops.ndjson"
    core.run_sv(["drive", "ops", "--out", t, "--tier", "quick", "--seed", 7, "--nrand", 20, "--deadline", 0])
    lines = [l for l in open(t).read().splitlines(True)[:1500]]
    recs = [json.loads(l) for l in lines]
    good = [r for r in recs if r["swaps"] == 0]
    (wd / "o_ok.ndjson").write_text("".join(json.dumps(r, separators=(",", ":")) + "\n" for r in good))
    expect("captured ops as recorded (cases without swaps)", wd / "o_ok.ndjson", False)
    k = next(i for i, r in enumerate(good) if len(r["ops"]) >= 3)
    good[k]["ops"][1][2] += 1
    (wd / "o_bad.ndjson").write_text("".join(json.dumps(r, separators=(",", ":")) + "\n" for r in good))
    expect("captured ops with one corrupted length", wd / "o_bad.ndjson", True)
    # call records
    t = wd / "c12.ndjson"
    core.run_sv(["drive", "c12", "--out", t, "--tier", "quick", "--seed", 7])
    recs = [json.loads(l) for l in open(t).read().splitlines()[4000:4400]]
    (wd / "g_ok.ndjson").write_text("".join(json.dumps(r, separators=(",", ":")) + "\n" for r in recs))
    expect("grouping records as recorded", wd / "g_ok.ndjson", False)
    k = next(i for i, r in enumerate(recs) if len(r["groups"]) >= 2)
    recs[k]["groups"] = recs[k]["groups"][::-1]
    (wd / "g_bad.ndjson").write_text("".join(json.dumps(r, separators=(",", ":")) + "\n" for r in recs))
    expect("grouping record with groups out of order", wd / "g_bad.ndjson", True)
    # accessor view of the ops (C11) and a late deadline check (C07 probe_gap)
    good2 = [json.loads(json.dumps(r)) for r in good]
    k = next(i for i, r in enumerate(good2) if len(r.get("acc", [])) >= 2)
    good2[k]["acc"][1][3] += 1
    (wd / "o_bad2.ndjson").write_text("".join(json.dumps(r, separators=(",", ":")) + "\n" for r in good2))
    expect("captured ops whose accessor view disagrees", wd / "o_bad2.ndjson", True)
    t = wd / "c07.ndjson"
    core.run_sv(["drive", "c07", "--out", t, "--tier", "quick", "--seed", 7])
    lines = open(t).read().splitlines(True)
    # one case with a never-expiring clock, no adapter stack and at least two probes
    start = next(i for i, l in enumerate(lines) if '"ev":"start"' in l and '"fuel":-1' in l and '"stack":"none"' in l
                 and sum(1 for x in lines[i + 1:i + 200] if '"ev":"probe"' in x
                         and lines[i + 1:i + 200].index(x) < next((j for j, y in enumerate(lines[i + 1:i + 200]) if '"ev":"ret"' in y), 0)) >= 2)
    end = next(j for j in range(start + 1, len(lines)) if '"ev":"ret"' in lines[j] or '"ev":"panic"' in lines[j])
    case = lines[start:end + 1]
    (wd / "p_ok.ndjson").write_text("".join(case))
    expect("deadline case as recorded", wd / "p_ok.ndjson", False)
    bad = list(case)
    r = json.loads(bad[-1]); r["cmps"] += 100000; bad[-1] = json.dumps(r, separators=(",", ":")) + "\n"
    (wd / "p_bad.ndjson").write_text("".join(bad))
    expect("deadline case with 100 000 comparisons after the last check", wd / "p_bad.ndjson", True)
    # expansion through other Iterator methods (C13)
    t = wd / "c13.ndjson"
    core.run_sv(["drive", "c13", "--out", t, "--tier", "quick", "--seed", 7])
    recs = [json.loads(l) for l in open(t).read().splitlines()[:300]]
    (wd / "e_ok.ndjson").write_text("".join(json.dumps(r, separators=(",", ":")) + "\n" for r in recs))
    expect("expansion records as recorded", wd / "e_ok.ndjson", False)
    k = next(i for i, r in enumerate(recs) if r.get("ev") == "expand1" and any(v[0] == "skip" and v[1] == 1 and len(v[2]) >= 1 for v in r.get("via", [])))
    for v in recs[k]["via"]:
        if v[0] == "skip" and v[1] == 1:
            v[2] = v[2][1:]
    (wd / "e_bad.ndjson").write_text("".join(json.dumps(r, separators=(",", ":")) + "\n" for r in recs))
    expect("expansion record whose skip(1) view lost a change", wd / "e_bad.ndjson", True)
    print("selftest: " + ("all binding checks behaved as expected" if not failures else f"{failures} UNEXPECTED result(s)"))
    return 0 if not failures else 2
