//! C18 (close matches), C16 (inline changes), C05 (unified diff).
use crate::fam_h::{alg_name, ALGS};
use crate::rec::{self, ops_json};
use crate::textgen;
use crate::util::{bytes_json, Args, Out, Rng};
use serde_json::{json, Value};
use similar::{get_close_matches, Algorithm, ChangeTag, DiffableStr, TextDiff};

fn tagnum(t: ChangeTag) -> i64 {
    match t {
        ChangeTag::Equal => 0,
        ChangeTag::Delete => 1,
        ChangeTag::Insert => 2,
    }
}

// ------------------------------------------------------------------ C18

fn cps(s: &str) -> Value {
    Value::Array(s.chars().map(|c| json!(c as u32)).collect())
}

fn lcs_chars(a: &str, b: &str) -> usize {
    let a: Vec<char> = a.chars().collect();
    let b: Vec<char> = b.chars().collect();
    let mut prev = vec![0usize; b.len() + 1];
    for x in &a {
        let mut cur = vec![0usize];
        for (j, y) in b.iter().enumerate() {
            cur.push(if x == y { prev[j] + 1 } else { prev[j + 1].max(cur[j]) });
        }
        prev = cur;
    }
    prev[b.len()]
}

fn edit_word(rng: &mut Rng, w: &str, edits: usize) -> String {
    let letters = ["a", "b", "c", "l", "o", "p", "e", "\u{e9}", "\u{df}", "z"];
    let mut cs: Vec<String> = w.chars().map(|c| c.to_string()).collect();
    for _ in 0..edits {
        match rng.below(3) {
            0 if !cs.is_empty() => {
                let p = rng.below(cs.len());
                cs.remove(p);
            }
            1 => {
                let p = rng.below(cs.len() + 1);
                cs.insert(p, letters[rng.below(letters.len())].to_string());
            }
            _ if !cs.is_empty() => {
                let p = rng.below(cs.len());
                cs[p] = letters[rng.below(letters.len())].to_string();
            }
            _ => {}
        }
    }
    cs.concat()
}

/// long words: candidates sharing a long prefix with the word and padded with junk, so that many
/// distinct ratios lie within 1e-4 of each other
fn long_close_case(rng: &mut Rng, case: i64) -> Value {
    let wl = rng.range(150, 220);
    let word: String = (0..wl).map(|_| char::from(b'a' + rng.below(6) as u8)).collect();
    let junk = if rng.chance(1, 2) { 'Z' } else { '~' };
    // all (prefix length k, junk length j) shapes; ratio = 2k / (wl + k + j)
    let mut shapes: Vec<(usize, usize)> = vec![];
    for k in (wl - 30)..(wl - 8) {
        for j in 55..90 {
            shapes.push((k, j));
        }
    }
    // pick a random shape and its closest distinct neighbours by ratio (differences of ~1e-5 and less)
    let (k0, j0) = *rng.pick(&shapes);
    let r0 = 2.0 * k0 as f64 / (wl + k0 + j0) as f64;
    let mut near: Vec<(f64, usize, usize)> = shapes
        .iter()
        .filter(|(k, j)| (*k, *j) != (k0, j0) && 2 * k * (wl + k0 + j0) != 2 * k0 * (wl + k + j))
        .map(|(k, j)| ((2.0 * *k as f64 / (wl + k + j) as f64 - r0).abs(), *k, *j))
        .collect();
    near.sort_by(|a, b| a.partial_cmp(b).unwrap());
    let mut picks = vec![(k0, j0)];
    for (_, k, j) in near.iter().take(rng.range(2, 4)) {
        picks.push((*k, *j));
    }
    picks.push(*rng.pick(&shapes));
    let mut cands: Vec<String> = picks
        .iter()
        .map(|(k, j)| {
            let mut c: String = word.chars().take(*k).collect();
            for _ in 0..*j {
                c.push(junk);
            }
            c
        })
        .collect();
    // shuffle
    for i in (1..cands.len()).rev() {
        let j = rng.below(i + 1);
        cands.swap(i, j);
    }
    let nres = rng.range(1, 4);
    let (p, q) = (1u32, 2u32);
    let cr: Vec<&str> = cands.iter().map(|c| c.as_str()).collect();
    let res = rec::guarded(|| {
        rec::hostile(|| get_close_matches(word.as_str(), &cr, nres, p as f32 / q as f32))
            .into_iter()
            .map(|x| cps(x))
            .collect::<Vec<Value>>()
    });
    json!({"ev":"closematch","case":case,"mode":"str","long":true,
        "word":cps(&word),"cands":Value::Array(cands.iter().map(|c| cps(c)).collect()),
        "n":nres,"p":p,"q":q,"panic":res.is_none(),"result":res.unwrap_or_default()})
}

pub fn drive_c18(a: &Args, out: &mut Out) {
    let mut rng = Rng::new(a.num("seed", 1));
    let n = if a.thorough() { 20000 } else { 2500 };
    for _ in 0..(if a.thorough() { 400 } else { 60 }) {
        let case = out.next_case();
        out.emit(&long_close_case(&mut rng, case));
    }
    // exact cutoffs, systematically: for every total length n <= 70 and every LCS length m, a word
    // of distinct characters and a candidate sharing its first m characters (so the cheap
    // pre-filter bounds are tight), with cutoff = 2m / n - the candidate's ratio exactly
    let alphabet: Vec<char> = ('a'..='z').chain('A'..='Z').chain('0'..='9').chain('\u{3b1}'..='\u{3c9}').collect();
    for n in 2..=(if a.thorough() { 86usize } else { 70 }) {
        for m in 1..=n / 2 {
            let rest = n - 2 * m;
            let (wa, cb) = (rest / 2, rest - rest / 2);
            if m + wa + cb > alphabet.len() {
                continue;
            }
            let word: String = alphabet[..m + wa].iter().collect();
            let cand: String = alphabet[..m].iter().chain(alphabet[m + wa..m + wa + cb].iter()).collect();
            let other: String = alphabet[..m.saturating_sub(1)].iter().collect();
            let cands = vec![other, cand];
            let (p, q) = ((2 * m) as u32, n as u32);
            let cr: Vec<&str> = cands.iter().map(|c| c.as_str()).collect();
            let case = out.next_case();
            let res = rec::guarded(|| {
                rec::hostile(|| get_close_matches(word.as_str(), &cr, 2, p as f32 / q as f32))
                    .into_iter()
                    .map(|x| cps(x))
                    .collect::<Vec<Value>>()
            });
            out.emit(&json!({"ev":"closematch","case":case,"mode":"str","exact_cutoff":true,
                "word":cps(&word),"cands":Value::Array(cands.iter().map(|c| cps(c)).collect()),
                "n":2,"p":p,"q":q,"panic":res.is_none(),"result":res.unwrap_or_default()}));
        }
    }
    let bases = ["appel", "hulo", "similarity", "abcabcabcabcabcabcab", "", "a", "\u{e9}t\u{e9}", "banana", "aaaaaaaaaa", "stra\u{df}e"];
    for i in 0..n {
        let base = bases[rng.below(bases.len())];
        let word = if rng.chance(1, 3) {
            let e = rng.range(0, 3);
            edit_word(&mut rng, base, e)
        } else {
            base.to_string()
        };
        let nc = rng.range(0, 9);
        let mut cands: Vec<String> = vec![];
        for _ in 0..nc {
            let c = match rng.below(8) {
                0 => String::new(),
                1 if !cands.is_empty() => cands[rng.below(cands.len())].clone(), // duplicate
                2 => word.clone(),
                3 => {
                    let b = bases[rng.below(bases.len())];
                    let e = rng.range(0, 4);
                    edit_word(&mut rng, b, e)
                }
                _ => {
                    let e = rng.range(1, 5);
                    edit_word(&mut rng, &word, e)
                }
            };
            cands.push(c);
        }
        // cutoff as a rational p/q; sometimes exactly the ratio of one candidate
        let (p, q): (u32, u32) = match rng.below(6) {
            0 => (0, 1),
            1 => (1, 1),
            2 if !cands.is_empty() => {
                let c = &cands[rng.below(cands.len())];
                let den = word.chars().count() + c.chars().count();
                if den == 0 {
                    (1, 1)
                } else {
                    ((2 * lcs_chars(&word, c)) as u32, den as u32)
                }
            }
            3 => (6, 10),
            4 => (*rng.pick(&[1u32, 2, 3]), 4),
            _ => (rng.range(0, 10) as u32, 10),
        };
        let cutoff = p as f32 / q as f32;
        let nres = rng.below(6);
        let bytes_mode = i % 3 == 0;
        let case = out.next_case();
        let res = rec::guarded(|| {
            if bytes_mode {
                let cb: Vec<&[u8]> = cands.iter().map(|c| c.as_bytes()).collect();
                rec::hostile(|| get_close_matches(word.as_bytes(), &cb, nres, cutoff))
                    .into_iter()
                    .map(|x| cps(std::str::from_utf8(x).unwrap()))
                    .collect::<Vec<Value>>()
            } else {
                let cr: Vec<&str> = cands.iter().map(|c| c.as_str()).collect();
                rec::hostile(|| get_close_matches(word.as_str(), &cr, nres, cutoff))
                    .into_iter()
                    .map(|x| cps(x))
                    .collect::<Vec<Value>>()
            }
        });
        out.emit(&json!({"ev":"closematch","case":case,"mode": if bytes_mode {"bytes"} else {"str"},
            "word":cps(&word),"cands":Value::Array(cands.iter().map(|c| cps(c)).collect()),
            "n":nres,"p":p,"q":q,"panic":res.is_none(),"result":res.unwrap_or_default()}));
    }
}

// ------------------------------------------------------------------ C16

fn inline_record<T: DiffableStr + ?Sized>(case: i64, alg: Algorithm, mode: &str, expired: bool, old: &T, new: &T) -> Value {
    let r = rec::guarded(|| {
        let mut cfg = TextDiff::configure();
        cfg.algorithm(alg);
        let diff = cfg.diff_lines(old, new);
        let mut per = vec![];
        for op in diff.ops() {
            let plain: Vec<Value> = diff
                .iter_changes(op)
                .map(|c| {
                    json!([tagnum(c.tag()), c.old_index().map(|x| x as i64).unwrap_or(-1),
                           c.new_index().map(|x| x as i64).unwrap_or(-1), bytes_json(c.value().as_bytes())])
                })
                .collect();
            if expired {
                rec::install_clock(0, false);
            } else {
                rec::install_hostile_clock(); // no deadline is passed: the clock must be unobservable
            }
            let deadline = if expired { Some(rec::far_future()) } else { None };
            // every third case of the deadline-free mode goes through iter_inline_changes(op), which
            // sets its own 500 ms budget: under the hostile clock that budget is "used up" at once,
            // under no clock it is ample - the property holds either way
            let default_entry = !expired && case % 3 == 0;
            let it: Box<dyn Iterator<Item = similar::InlineChange<'_, T>>> = if default_entry {
                if case % 2 == 0 {
                    rec::remove_clock();
                }
                Box::new(diff.iter_inline_changes(op))
            } else {
                Box::new(diff.iter_inline_changes_deadline(op, deadline))
            };
            let inl: Vec<Value> = it
                .map(|c| {
                    json!([tagnum(c.tag()), c.old_index().map(|x| x as i64).unwrap_or(-1),
                           c.new_index().map(|x| x as i64).unwrap_or(-1),
                           Value::Array(c.values().iter().map(|(e, s)| json!([if *e {1} else {0}, bytes_json(s.as_bytes())])).collect()),
                           c.missing_newline(),
                           // beyond the listed properties: what the inline change prints
                           bytes_json(c.to_string().as_bytes())])
                })
                .collect();
            rec::remove_clock();
            per.push(json!({"tag": rec::op_json(op)[0], "plain": plain, "inline": inl,
                "utf8": std::str::from_utf8(old.as_bytes()).is_ok() && std::str::from_utf8(new.as_bytes()).is_ok()}));
        }
        (ops_json(diff.ops()), per)
    });
    let mut v = json!({"ev":"inline","case":case,"alg":alg_name(alg),"mode":mode,"expired":expired,
        "unicode": cfg!(feature = "unicode"),
        "old":bytes_json(old.as_bytes()),"new":bytes_json(new.as_bytes())});
    match r {
        Some((ops, per)) => {
            v["panic"] = json!(false);
            v["ops"] = ops;
            v["per_op"] = json!(per);
        }
        None => {
            v["panic"] = json!(true);
            v["ops"] = json!([]);
            v["per_op"] = json!([]);
        }
    }
    v
}

/// line texts in which replaced lines are similar (so that the inline differ engages)
fn similar_line_pair(rng: &mut Rng) -> (String, String) {
    // (several words differ only in a multi-byte character whose UTF-8 encodings share their
    // leading bytes: e-acute / e-grave, two CJK characters, Cyrillic vowels)
    let words = [
        "foo", "bar", "baz", "\u{e9}t\u{e9}", "x", "(y)", "1.5", "caf\u{e9}", "a\u{301}", "==", "caf\u{e8}", "\u{65e5}", "\u{672c}",
        "\u{43c}\u{438}\u{440}", "\u{43c}\u{43e}\u{440}", "foos",
    ];
    let seps = [" ", " ", "  ", "\t", "\u{a0}"];
    let terms = ["\n", "\n", "\r\n", "\r"];
    let nl = rng.range(1, 5);
    let mut old = String::new();
    let mut new = String::new();
    for i in 0..nl {
        let nw = rng.range(0, 6);
        let mut ws: Vec<String> = vec![];
        for _ in 0..nw {
            ws.push(words[rng.below(words.len())].to_string());
            ws.push(seps[rng.below(seps.len())].to_string());
        }
        let line_old = ws.concat();
        let mut ws2 = ws.clone();
        let fate = rng.below(5);
        if fate >= 1 && !ws2.is_empty() {
            for _ in 0..rng.range(1, 2) {
                let p = rng.below(ws2.len());
                match rng.below(3) {
                    0 => {
                        ws2.remove(p);
                    }
                    1 => ws2.insert(p, words[rng.below(words.len())].to_string()),
                    _ => ws2[p] = words[rng.below(words.len())].to_string(),
                }
            }
        }
        let line_new = ws2.concat();
        let last = i + 1 == nl;
        let t_old = if last && rng.chance(1, 3) { "" } else { terms[rng.below(terms.len())] };
        let t_new = if last && rng.chance(1, 3) { "" } else if rng.chance(4, 5) { t_old } else { terms[rng.below(terms.len())] };
        if fate != 4 {
            old.push_str(&line_old);
            old.push_str(t_old);
        }
        if fate != 3 || i % 2 == 0 {
            new.push_str(&line_new);
            new.push_str(t_new);
        }
    }
    (old, new)
}

/// big Replace hunks: more than 1000 word tokens on a side, similar enough to pass both ratio
/// gates, with different token counts on the two sides (one long line; many short lines)
fn big_inline_pairs(rng: &mut Rng) -> Vec<(String, String)> {
    let mut v = vec![];
    let words = ["foo", "bar", "baz", "qux", "x", "y1", "zz"];
    // one line of ~600 words vs the same with some words dropped / added
    let w: Vec<&str> = (0..rng.range(560, 640)).map(|_| *rng.pick(&words)).collect();
    for drop in [true, false] {
        let mut w2 = w.clone();
        for _ in 0..12 {
            let p = rng.below(w2.len());
            if drop {
                w2.remove(p);
            } else {
                w2.insert(p, "NEW");
            }
        }
        v.push((format!("{}\n", w.join(" ")), format!("{}\n", w2.join(" "))));
    }
    // 160 changed lines of four words each vs 150 / 170 lines
    for delta in [-10i64, 10] {
        let mut old = String::new();
        let mut new = String::new();
        for i in 0..160 {
            old.push_str(&format!("k{} {} {} {}\n", i, rng.pick(&words), rng.pick(&words), rng.pick(&words)));
        }
        for i in 0..(160 + delta) {
            new.push_str(&format!("k{} {} {} v\n", i, rng.pick(&words), rng.pick(&words)));
        }
        v.push((old, new));
    }
    v
}

pub fn drive_c16(a: &Args, out: &mut Out) {
    let mut rng = Rng::new(a.num("seed", 1));
    let n = if a.thorough() { 12000 } else { 1200 };
    for (x, y) in big_inline_pairs(&mut rng) {
        for expired in [false, true] {
            let case = out.next_case();
            out.emit(&inline_record::<str>(case, Algorithm::Myers, "str", expired, &x, &y));
        }
    }
    for i in 0..n {
        let (x, y) = if i % 40 == 39 {
            textgen::runny_line_pair(&mut rng)
        } else if i % 4 == 3 {
            let k = rng.below(6);
            let x = textgen::random_lines(&mut rng, k, 8);
            let e = rng.range(0, 3);
            let y = textgen::mutate_lines(&mut rng, &x, e, 8);
            (x, y)
        } else {
            similar_line_pair(&mut rng)
        };
        let alg = ALGS[i % 3];
        for expired in [false, true] {
            let case = out.next_case();
            out.emit(&inline_record::<str>(case, alg, "str", expired, &x, &y));
            if i % 2 == 0 {
                // bytes, with an invalid sequence injected into a line now and then
                let mut xb = x.clone().into_bytes();
                let mut yb = y.clone().into_bytes();
                if i % 6 == 0 && !xb.is_empty() {
                    let p = rng.below(xb.len());
                    if xb[p].is_ascii() && xb[p] != b'\n' && xb[p] != b'\r' {
                        xb[p] = 0xff;
                    }
                    if !yb.is_empty() {
                        let p = rng.below(yb.len());
                        if yb[p].is_ascii() && yb[p] != b'\n' && yb[p] != b'\r' {
                            yb[p] = 0xfe;
                        }
                    }
                }
                let case = out.next_case();
                out.emit(&inline_record::<[u8]>(case, alg, "bytes", expired, &xb, &yb));
            }
        }
    }
}

// ------------------------------------------------------------------ C05

/// `io::Write` sink that accepts at most three bytes per `write` call (short writes are legal)
pub struct ChunkWriter(pub Vec<u8>);
impl std::io::Write for ChunkWriter {
    fn write(&mut self, buf: &[u8]) -> std::io::Result<usize> {
        let n = buf.len().min(3);
        self.0.extend_from_slice(&buf[..n]);
        Ok(n)
    }
    fn flush(&mut self) -> std::io::Result<()> {
        Ok(())
    }
}

pub fn udiff_record<T: DiffableStr + ?Sized>(
    case: i64,
    alg: Algorithm,
    mode: &str,
    radius: usize,
    header: bool,
    hint: bool,
    old: &T,
    new: &T,
) -> Value {
    let render = |repair: bool| {
        similar::verif_hooks::set_swap_repair(repair);
        let _ = similar::verif_hooks::take_swap_count();
        rec::install_hostile_clock(); // no deadline is configured: the clock must be unobservable
        let r = rec::guarded(|| {
            let mut cfg = TextDiff::configure();
            cfg.algorithm(alg);
            let diff = cfg.diff_lines(old, new);
            let mut ud = diff.unified_diff();
            ud.context_radius(radius);
            if header {
                ud.header("a", "b");
            }
            ud.missing_newline_hint(hint);
            let mut w = vec![];
            ud.to_writer(&mut w).unwrap();
            let d = ud.to_string();
            // hunks rendered one by one through both paths
            let hw: Vec<u8> = {
                let mut v = vec![];
                for h in ud.iter_hunks() {
                    h.to_writer(&mut v).unwrap();
                }
                v
            };
            // a conforming sink that takes at most three bytes per write call
            let mut cw = ChunkWriter(vec![]);
            ud.to_writer(&mut cw).unwrap();
            (w, d.into_bytes(), hw, ops_json(diff.ops()), cw.0)
        });
        rec::remove_clock();
        similar::verif_hooks::set_swap_repair(false);
        let swaps = similar::verif_hooks::take_swap_count();
        (r, swaps)
    };
    let (plain, swaps) = render(false);
    let (rep, _) = render(true);
    let mut v = json!({"ev":"udiff","case":case,"alg":alg_name(alg),"mode":mode,"radius":radius,"header":header,"hint":hint,
        "old":bytes_json(old.as_bytes()),"new":bytes_json(new.as_bytes()),"swaps":swaps,
        "utf8": std::str::from_utf8(old.as_bytes()).is_ok() && std::str::from_utf8(new.as_bytes()).is_ok()});
    match plain {
        Some((w, d, hw, ops, cw)) => {
            v["panic"] = json!(false);
            v["out_w_chunk"] = bytes_json(&cw);
            v["lossy_w"] = bytes_json(String::from_utf8_lossy(&w).as_bytes());
            v["out_w"] = bytes_json(&w);
            v["out_d"] = bytes_json(&d);
            v["hunks_w"] = bytes_json(&hw);
            v["ops"] = ops;
        }
        None => {
            v["panic"] = json!(true);
            v["lossy_w"] = json!([]);
            v["out_w"] = json!([]);
            v["out_d"] = json!([]);
            v["hunks_w"] = json!([]);
            v["ops"] = json!([]);
        }
    }
    match rep {
        Some((w, _, _, _, _)) => {
            v["rep_panic"] = json!(false);
            v["out_w_rep"] = bytes_json(&w);
        }
        None => {
            v["rep_panic"] = json!(true);
            v["out_w_rep"] = json!([]);
        }
    }
    v
}

pub fn line_text_pairs(rng: &mut Rng, thorough: bool) -> Vec<(Vec<u8>, Vec<u8>)> {
    let mut v: Vec<(Vec<u8>, Vec<u8>)> = vec![];
    // all texts of <= 3 lines over a few line bodies/terminators (incl. missing final newline)
    let lines = ["a\n", "b\n", "a\r\n", "b\r", "a", "c ", "b\t"];
    let mut texts: Vec<String> = vec![String::new()];
    let mut frontier = vec![String::new()];
    for _ in 0..(if thorough { 3 } else { 2 }) {
        let mut next = vec![];
        for t in &frontier {
            // a text may only continue after a terminated line
            if !t.is_empty() && !t.ends_with('\n') && !t.ends_with('\r') {
                continue;
            }
            for l in lines {
                next.push(format!("{}{}", t, l));
            }
        }
        texts.extend(next.iter().cloned());
        frontier = next;
    }
    for a in &texts {
        for b in &texts {
            v.push((a.clone().into_bytes(), b.clone().into_bytes()));
        }
    }
    let nrand = if thorough { 8000 } else { 700 };
    for i in 0..nrand {
        let n = if i % 10 == 0 { rng.range(10, 40) } else { rng.below(9) };
        let pool = if i % 3 == 0 { 3 } else { 8 };
        let a = textgen::random_lines(rng, n, pool);
        let e = rng.range(0, 4);
        let b = textgen::mutate_lines(rng, &a, e, pool);
        let (mut a, mut b) = (a.into_bytes(), b.into_bytes());
        if i % 5 == 0 {
            // invalid UTF-8 inside a line (bytes mode only)
            for t in [&mut a, &mut b] {
                if !t.is_empty() {
                    let p = rng.below(t.len());
                    if t[p].is_ascii() && t[p] != b'\n' && t[p] != b'\r' {
                        t[p] = *rng.pick(&[0xffu8, 0xfe, 0xc3, 0x80]);
                    }
                }
            }
        }
        v.push((a, b));
    }
    // more than 100 lines made of runs of repeated lines (blank lines, closing braces), few edits
    for _ in 0..(if thorough { 300 } else { 30 }) {
        let (a, b) = textgen::runny_line_pair(rng);
        v.push((a.into_bytes(), b.into_bytes()));
    }
    // scale: three-, four- and five-digit line numbers, hunks far apart, and long lines
    let sizes: Vec<usize> = if thorough { vec![120, 130, 1100, 1200, 10100] } else { vec![120, 1100, 10100] };
    for n in sizes {
        let a = textgen::random_lines(rng, n, 3);
        let e = rng.range(2, 8);
        let b = textgen::mutate_lines(rng, &a, e, 3);
        v.push((a.clone().into_bytes(), b.clone().into_bytes()));
        v.push((b.into_bytes(), a.into_bytes()));
    }
    for l in [300usize, 5000] {
        let long: String = (0..l).map(|i| (b'a' + (i % 23) as u8) as char).collect();
        let a = format!("x\n{}\ny\nz\n", long);
        let b = format!("x\n{}!\ny\nz", long);
        v.push((a.into_bytes(), b.into_bytes()));
    }
    v
}

/// the one-call helper `udiff::unified_diff(alg, old, new, n, header)` as a udiff record
fn helper_udiff_record(case: i64, alg: Algorithm, radius: usize, header: bool, old: &str, new: &str) -> Value {
    let run = |repair: bool| {
        similar::verif_hooks::set_swap_repair(repair);
        let r = rec::guarded(|| {
            similar::udiff::unified_diff(alg, old, new, radius, if header { Some(("a", "b")) } else { None }).into_bytes()
        });
        similar::verif_hooks::set_swap_repair(false);
        r
    };
    let plain = run(false);
    let rep = run(true);
    let w = plain.clone().unwrap_or_default();
    json!({"ev":"udiff","case":case,"alg":alg_name(alg),"mode":"str","via":"unified_diff()","radius":radius,"header":header,
        "hint":true,"old":bytes_json(old.as_bytes()),"new":bytes_json(new.as_bytes()),"swaps":0,"utf8":true,
        "panic":plain.is_none(),"out_w":bytes_json(&w),"out_d":bytes_json(&w),"lossy_w":bytes_json(&w),
        "hunks_w": if header && !w.is_empty() { bytes_json(&w[12..]) } else { bytes_json(&w) },
        "ops":[],"rep_panic":rep.is_none(),"out_w_rep":bytes_json(&rep.unwrap_or_default())})
}

/// > 2^24 lines per side with one deleted / one inserted line (beyond that size the f32
/// similarity ratio of such a diff is exactly 1.0): only the rendering and the ops are recorded
fn huge_udiff_record(case: i64, rng: &mut Rng) -> Value {
    let m = (1usize << 24) + 3 + 4 * rng.below(250);
    let mut old = String::with_capacity(2 * m + 4);
    old.push_str("x\n");
    for _ in 0..m {
        old.push_str("a\n");
    }
    let new = if rng.chance(1, 2) { old[2..].to_string() } else { format!("{}y\n", &old[2..]) };
    let radius = rng.range(0, 3);
    let r = rec::guarded(|| {
        let diff = TextDiff::from_lines(&old, &new);
        let mut ud = diff.unified_diff();
        ud.context_radius(radius);
        let mut w = vec![];
        ud.to_writer(&mut w).unwrap();
        (w, ud.to_string().into_bytes(), ops_json(diff.ops()))
    });
    match r {
        Some((w, d, ops)) => json!({"ev":"udiff_huge","case":case,"radius":radius,"lines":m,"panic":false,
            "out_w":bytes_json(&w),"out_d":bytes_json(&d),"ops":ops}),
        None => json!({"ev":"udiff_huge","case":case,"radius":radius,"lines":m,"panic":true,"out_w":[],"out_d":[],"ops":[]}),
    }
}

pub fn drive_c05(a: &Args, out: &mut Out) {
    let mut rng = Rng::new(a.num("seed", 1));
    if a.get("huge", "1") == "1" {
        let case = out.next_case();
        out.emit(&huge_udiff_record(case, &mut rng));
    }
    let pairs = line_text_pairs(&mut rng, a.thorough());
    for (i, (x, y)) in pairs.iter().enumerate().step_by(5) {
        if let (Ok(xs), Ok(ys)) = (std::str::from_utf8(x), std::str::from_utf8(y)) {
            let case = out.next_case();
            out.emit(&helper_udiff_record(case, ALGS[i % 3], [0usize, 1, 3][i % 3], i % 2 == 0, xs, ys));
        }
    }
    for (i, (x, y)) in pairs.iter().enumerate() {
        let alg = ALGS[i % 3];
        let radius = if x.len() > 200 { [0usize, 3, 10, 100, 1000][rng.below(5)] } else { [0usize, 1, 3, 0, 2][i % 5] };
        let header = i % 2 == 0;
        let hint = i % 7 != 6;
        let case = out.next_case();
        out.emit(&udiff_record::<[u8]>(case, alg, "bytes", radius, header, hint, x, y));
        if let (Ok(xs), Ok(ys)) = (std::str::from_utf8(x), std::str::from_utf8(y)) {
            let case = out.next_case();
            out.emit(&udiff_record::<str>(case, ALGS[(i + 1) % 3], "str", radius, header, hint, xs, ys));
            if i % 4 == 0 {
                for r2 in [0usize, 1] {
                    let case = out.next_case();
                    out.emit(&udiff_record::<str>(case, ALGS[(i + 2) % 3], "str", r2, false, true, xs, ys));
                }
            }
        }
    }
}
