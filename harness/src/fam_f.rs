//! Call-record families for pure functions: grouping (C12), expansion (C13).
use crate::fam_a::random_script;
use crate::gen;
use crate::rec::{self, op_json, ops_json};
use crate::util::{seq_json, Args, Out, Rng};
use serde_json::{json, Value};
use similar::algorithms::{Capture, Replace};
use similar::{group_diff_ops, ChangeTag, DiffOp};

fn tagnum(t: ChangeTag) -> i64 {
    match t {
        ChangeTag::Equal => 0,
        ChangeTag::Delete => 1,
        ChangeTag::Insert => 2,
    }
}

/// alternating op list: run lengths from `lens`, kinds of the change runs from `kinds`
/// (1 = Delete, 2 = Insert, 3 = Replace), starting with an Equal run iff `lead_eq`.
pub fn alternating_ops(lens: &[usize], kinds: &[u8], lead_eq: bool) -> Vec<DiffOp> {
    alternating_ops_at(lens, kinds, lead_eq, 0, 0)
}

/// the same starting at arbitrary base offsets (op lists of sub-range diffs)
pub fn alternating_ops_at(lens: &[usize], kinds: &[u8], lead_eq: bool, o0: usize, n0: usize) -> Vec<DiffOp> {
    let (mut o, mut n) = (o0, n0);
    let mut ops = vec![];
    let mut eq = lead_eq;
    let mut ki = 0;
    for &l in lens {
        if eq {
            ops.push(DiffOp::Equal {
                old_index: o,
                new_index: n,
                len: l,
            });
            o += l;
            n += l;
        } else {
            let k = kinds[ki % kinds.len()];
            ki += 1;
            match k {
                1 => {
                    ops.push(DiffOp::Delete {
                        old_index: o,
                        old_len: l,
                        new_index: n,
                    });
                    o += l;
                }
                2 => {
                    ops.push(DiffOp::Insert {
                        old_index: o,
                        new_index: n,
                        new_len: l,
                    });
                    n += l;
                }
                _ => {
                    let nl = (l % 3) + 1;
                    ops.push(DiffOp::Replace {
                        old_index: o,
                        old_len: l,
                        new_index: n,
                        new_len: nl,
                    });
                    o += l;
                    n += nl;
                }
            }
        }
        eq = !eq;
    }
    ops
}

pub fn emit_group(ops: &[DiffOp], n: usize, out: &mut Out) {
    let case = out.next_case();
    let ops_v = ops.to_vec();
    let g = rec::guarded(|| group_diff_ops(ops_v, n));
    match g {
        Some(groups) => out.emit(&json!({"ev":"group","case":case,"ops":ops_json(ops),"n":n,"panic":false,
            "groups": Value::Array(groups.iter().map(|g| ops_json(g)).collect())})),
        None => out.emit(&json!({"ev":"group","case":case,"ops":ops_json(ops),"n":n,"panic":true,"groups":[]})),
    }
}

pub fn drive_c12(a: &Args, out: &mut Out) {
    let mut rng = Rng::new(a.num("seed", 1));
    let thorough = a.thorough();
    let maxops = if thorough { 6 } else { 5 };
    // exhaustive: all alternating lists with <= maxops ops, run lengths from the
    // boundary set {1, n, n+1, 2n, 2n+1, 2n+2}, radius 0..3
    for n in 0..=3usize {
        let mut ls: Vec<usize> = vec![1, n, n + 1, 2 * n, 2 * n + 1, 2 * n + 2];
        ls.retain(|&x| x >= 1);
        ls.sort();
        ls.dedup();
        for nops in 0..=maxops {
            let mut idx = vec![0usize; nops];
            loop {
                let lens: Vec<usize> = idx.iter().map(|&i| ls[i]).collect();
                for lead_eq in [true, false] {
                    for kinds in [[1u8, 2, 3], [2, 3, 1], [3, 1, 2]] {
                        let ops = alternating_ops(&lens, &kinds, lead_eq);
                        emit_group(&ops, n, out);
                    }
                }
                // next
                let mut k = 0;
                while k < nops {
                    idx[k] += 1;
                    if idx[k] < ls.len() {
                        break;
                    }
                    idx[k] = 0;
                    k += 1;
                }
                if k == nops {
                    break;
                }
            }
        }
    }
    // random longer lists, larger radius, and ops produced by real diffs
    let nrand = if thorough { 30000 } else { 3000 };
    for _ in 0..nrand {
        let n = rng.below(6);
        let nops = rng.range(0, 12);
        let lens: Vec<usize> = (0..nops)
            .map(|_| match rng.below(4) {
                0 => rng.range(1, 3),
                1 => (2 * n).max(1),
                2 => 2 * n + 1,
                _ => rng.range(1, 2 * n + 3),
            })
            .collect();
        let kinds = [rng.range(1, 3) as u8, rng.range(1, 3) as u8, rng.range(1, 3) as u8];
        let ops = alternating_ops(&lens, &kinds, rng.chance(1, 2));
        emit_group(&ops, n, out);
        // op lists of sub-range diffs: different base offsets on the two sides
        let (o0, n0) = (rng.below(9), rng.below(9));
        let ops = alternating_ops_at(&lens, &kinds, rng.chance(2, 3), o0, n0);
        emit_group(&ops, n, out);
    }
    // scale: ops are only numbers, so large radii, long runs, long lists and large base offsets
    // are cheap (everything stays below 2^31, the integer range of TLC)
    let radii = [8usize, 16, 50, 100, 255, 256, 257, 1000, 4096, 65535, 65536, 100_000];
    for i in 0..(if thorough { 4000 } else { 400 }) {
        let n = radii[rng.below(radii.len())];
        let nops = if i % 20 == 0 { rng.range(100, 400) } else { rng.range(0, 40) };
        let lens: Vec<usize> = (0..nops)
            .map(|_| match rng.below(10) {
                0 => 1,
                1 => n - 1,
                2 => n,
                3 => n + 1,
                4 => 2 * n - 1,
                5 => 2 * n,
                6 => 2 * n + 1,
                7 => 2 * n + 2,
                8 => 3 * n + rng.below(5),
                _ => rng.range(1, 3 * n),
            })
            .collect();
        let kinds = [rng.range(1, 3) as u8, rng.range(1, 3) as u8, rng.range(1, 3) as u8];
        let (o0, n0) = if i % 2 == 0 { (0, 0) } else { (rng.below(1_000_000), rng.below(1_000_000)) };
        let ops = alternating_ops_at(&lens, &kinds, rng.chance(1, 2), o0, n0);
        emit_group(&ops, n, out);
    }
    for _ in 0..nrand / 10 {
        let (x, y) = gen::random_pair(&mut rng, 40);
        let ops = similar::capture_diff_slices(similar::Algorithm::Myers, &x, &y);
        emit_group(&ops, rng.below(5), out);
    }
    // huge, nearly identical token lists through TextDiff::grouped_ops (beyond 2^24 tokens per side
    // the f32 similarity ratio of a diff with a handful of changes rounds to exactly 1.0): only
    // the ops and the groups are recorded - grouping is a statement about op lists
    if a.get("huge", "1") == "1" {
        let m = (1usize << 24) + 3 + 4 * rng.below(250); // m % 4 == 3: 2m rounds up to 2m + 2 in f32
        let (a_, x_, y_) = ("a\n", "x\n", "y\n");
        let mut old: Vec<&str> = Vec::with_capacity(m + 1);
        old.push(x_);
        old.resize(m + 1, a_);
        let mut new: Vec<&str> = vec![a_; m];
        new.push(y_);
        let n = rng.range(1, 4);
        let case = out.next_case();
        let r = rec::guarded(|| {
            let diff = similar::TextDiff::from_slices(&old, &new);
            (diff.ops().to_vec(), diff.grouped_ops(n))
        });
        match r {
            Some((ops, groups)) => out.emit(&json!({"ev":"group","case":case,"ops":ops_json(&ops),"n":n,"panic":false,
                "via":"grouped_ops_huge","groups": Value::Array(groups.iter().map(|g| ops_json(g)).collect())})),
            None => out.emit(&json!({"ev":"group","case":case,"ops":[],"n":n,"panic":true,"groups":[]})),
        }
    }
    // the other entry points of grouping: Capture::into_grouped_ops and TextDiff::grouped_ops
    for i in 0..nrand / 10 {
        let (x, y) = gen::random_pair(&mut rng, 30);
        let n = rng.below(5);
        let case = out.next_case();
        let r = rec::guarded(|| {
            if i % 2 == 0 {
                let mut d = Replace::new(Capture::new());
                similar::algorithms::diff_slices(similar::Algorithm::Myers, &mut d, &x, &y).unwrap();
                let cap = d.into_inner();
                (cap.ops().to_vec(), cap.into_grouped_ops(n))
            } else {
                let xs: Vec<String> = x.iter().map(|v| format!("{}\n", v)).collect();
                let ys: Vec<String> = y.iter().map(|v| format!("{}\n", v)).collect();
                let xr: Vec<&str> = xs.iter().map(|s| s.as_str()).collect();
                let yr: Vec<&str> = ys.iter().map(|s| s.as_str()).collect();
                let diff = similar::TextDiff::from_slices(&xr, &yr);
                (diff.ops().to_vec(), diff.grouped_ops(n))
            }
        });
        match r {
            Some((ops, groups)) => out.emit(&json!({"ev":"group","case":case,"ops":ops_json(&ops),"n":n,"panic":false,
                "via": if i % 2 == 0 {"into_grouped_ops"} else {"grouped_ops"},
                "groups": Value::Array(groups.iter().map(|g| ops_json(g)).collect())})),
            None => out.emit(&json!({"ev":"group","case":case,"ops":[],"n":n,"panic":true,"groups":[]})),
        }
    }
}

// ------------------------------------------------------------------ C13

fn change_json<T: Copy + Into<u64>>(c: &similar::Change<T>) -> Value {
    json!([
        tagnum(c.tag()),
        c.old_index().map(|x| x as i64).unwrap_or(-1),
        c.new_index().map(|x| x as i64).unwrap_or(-1),
        c.value().into()
    ])
}

pub fn expand_record(old: &[u32], new: &[u32], op: &DiffOp, case: i64) -> Value {
    let r = rec::guarded(|| {
        let changes: Vec<Value> = op.iter_changes(old, new).map(|c| change_json(&c)).collect();
        let slices: Vec<Value> = op
            .iter_slices(old, new)
            .map(|(t, s)| json!([tagnum(t), seq_json(s)]))
            .collect();
        // the expansion consumed through other Iterator methods (small ops only): skip(k) for every
        // k, nth(k) followed by the rest, step_by(2), count, last, size_hint
        let total = changes.len();
        let mut via: Vec<Value> = vec![];
        if total <= 12 {
            for k in 0..=total {
                let v: Vec<Value> = op.iter_changes(old, new).skip(k).map(|c| change_json(&c)).collect();
                via.push(json!(["skip", k, v]));
                let mut it = op.iter_changes(old, new);
                let first = it.nth(k).map(|c| change_json(&c));
                let mut v: Vec<Value> = first.into_iter().collect();
                v.extend(it.map(|c| change_json(&c)));
                via.push(json!(["nth", k, v]));
            }
            let v: Vec<Value> = op.iter_changes(old, new).step_by(2).map(|c| change_json(&c)).collect();
            via.push(json!(["step2", 0, v]));
            via.push(json!(["count", op.iter_changes(old, new).count(), []]));
            let v: Vec<Value> = op.iter_changes(old, new).last().map(|c| change_json(&c)).into_iter().collect();
            via.push(json!(["last", 0, v]));
            let (lo, hi) = op.iter_changes(old, new).size_hint();
            via.push(json!(["size_hint", lo, [hi.map(|h| h as i64).unwrap_or(-1)]]));
        }
        let mut cap = Capture::new();
        op.apply_to_hook(&mut cap).unwrap();
        // the same with the capturing hook passed by reference (D = &mut Capture)
        let mut cap2 = Capture::new();
        {
            let mut by_ref = &mut cap2;
            op.apply_to_hook(&mut by_ref).unwrap();
        }
        // ... and through the Replace adapter in front of the capturing hook (one op, then finish)
        let mut rc = Replace::new(Capture::new());
        op.apply_to_hook(&mut rc).unwrap();
        similar::algorithms::DiffHook::finish(&mut rc).unwrap();
        let re3 = rc.into_inner().into_ops();
        (changes, slices, cap.into_ops(), cap2.into_ops(), via, re3)
    });
    match r {
        Some((changes, slices, re, re2, via, re3)) => json!({"ev":"expand1","case":case,"old":seq_json(old),"new":seq_json(new),
            "op":op_json(op),"panic":false,"changes":changes,"slices":slices,"reapplied":ops_json(&re),
            "reapplied_ref":ops_json(&re2),"via":via,"reapplied_replace":ops_json(&re3)}),
        None => json!({"ev":"expand1","case":case,"old":seq_json(old),"new":seq_json(new),
            "op":op_json(op),"panic":true,"changes":[],"slices":[],"reapplied":[],"reapplied_ref":[]}),
    }
}

pub fn drive_c13(a: &Args, out: &mut Out) {
    let mut rng = Rng::new(a.num("seed", 1));
    let thorough = a.thorough();
    // single ops with arbitrary in-bounds offsets, old offset != new offset, lengths differ
    let n1 = if thorough { 40000 } else { 4000 };
    // ... and the same at scale: op lengths and offsets beyond 255 / 65 535
    let sizes: Vec<(usize, usize)> = if thorough {
        vec![(n1, 9), (600, 300), (60, 5000), (6, 66000)]
    } else {
        vec![(n1, 9), (60, 300), (10, 5000), (2, 66000)]
    };
    for (maxlen, _) in sizes.iter().flat_map(|&(cnt, maxlen)| std::iter::repeat((maxlen, ())).take(cnt)) {
        let lo = if maxlen > 9 { rng.range(maxlen / 2, maxlen) } else { rng.range(0, 9) };
        let ln = if maxlen > 9 { rng.range(maxlen / 2, maxlen) } else { rng.range(0, 9) };
        let mut old: Vec<u32> = (0..lo).map(|_| rng.below(50) as u32).collect();
        let mut new: Vec<u32> = (0..ln).map(|_| 100 + rng.below(50) as u32).collect();
        let kind = rng.below(4);
        let op = match kind {
            0 if rng.chance(1, 2) => {
                // an equal segment at different offsets: plant it
                let len = if maxlen > 9 { rng.range(maxlen / 4, maxlen / 2) } else { rng.range(0, 4) };
                let seg: Vec<u32> = (0..len).map(|_| 200 + rng.below(5) as u32).collect();
                let oi = rng.below(old.len() + 1);
                let ni = rng.below(new.len() + 1);
                for (k, v) in seg.iter().enumerate() {
                    old.insert(oi + k, *v);
                    new.insert(ni + k, *v);
                }
                DiffOp::Equal {
                    old_index: oi,
                    new_index: ni,
                    len,
                }
            }
            0 => {
                // an Equal op over arbitrary sequences (items that compare equal need not be
                // identical): the expansion must agree with the slice-wise one, taken from old
                let len = rng.below(old.len().min(new.len()) + 1);
                DiffOp::Equal {
                    old_index: rng.below(old.len() - len + 1),
                    new_index: rng.below(new.len() - len + 1),
                    len,
                }
            }
            1 => {
                let oi = rng.below(old.len() + 1);
                let l = rng.below(old.len() - oi + 1);
                DiffOp::Delete {
                    old_index: oi,
                    old_len: l,
                    new_index: rng.below(new.len() + 1),
                }
            }
            2 => {
                let ni = rng.below(new.len() + 1);
                let l = rng.below(new.len() - ni + 1);
                DiffOp::Insert {
                    old_index: rng.below(old.len() + 1),
                    new_index: ni,
                    new_len: l,
                }
            }
            _ => {
                let oi = rng.below(old.len() + 1);
                let ol = rng.below(old.len() - oi + 1);
                let ni = rng.below(new.len() + 1);
                let nl = rng.below(new.len() - ni + 1);
                DiffOp::Replace {
                    old_index: oi,
                    old_len: ol,
                    new_index: ni,
                    new_len: nl,
                }
            }
        };
        let case = out.next_case();
        out.emit(&expand_record(&old, &new, &op, case));
    }
    // whole diffs: TextDiff::iter_all_changes = concatenation of per-op expansions
    let n2 = if thorough { 6000 } else { 600 };
    for i in 0..n2 {
        let (x, y) = gen::random_pair(&mut rng, 14);
        let xs: Vec<String> = x.iter().map(|v| format!("{}", v)).collect();
        let ys: Vec<String> = y.iter().map(|v| format!("{}", v)).collect();
        let xr: Vec<&str> = xs.iter().map(|s| s.as_str()).collect();
        let yr: Vec<&str> = ys.iter().map(|s| s.as_str()).collect();
        let case = out.next_case();
        let r = rec::guarded(|| {
            // ops either from a real diff or an arbitrary valid script through Replace
            let ops: Vec<DiffOp> = if i % 2 == 0 {
                similar::TextDiff::from_slices(&xr, &yr).ops().to_vec()
            } else {
                let script = random_script(&mut rng, &x, &y);
                let mut d = Replace::new(Capture::new());
                for op in &script {
                    op.apply_to_hook(&mut d).unwrap();
                }
                similar::algorithms::DiffHook::finish(&mut d).unwrap();
                d.into_inner().into_ops()
            };
            let diff = similar::TextDiff::from_slices(&xr, &yr);
            let cj = |c: &similar::Change<&str>| {
                json!([tagnum(c.tag()), c.old_index().map(|x| x as i64).unwrap_or(-1),
                       c.new_index().map(|x| x as i64).unwrap_or(-1), c.value().parse::<u64>().unwrap()])
            };
            let all: Vec<Value> = diff.iter_all_changes().map(|c| cj(&c)).collect();
            let per: Vec<Value> = diff
                .ops()
                .iter()
                .map(|op| Value::Array(diff.iter_changes(op).map(|c| cj(&c)).collect()))
                .collect();
            // the arbitrary op list expanded op by op against the slices
            let per2: Vec<Value> = ops
                .iter()
                .map(|op| Value::Array(op.iter_changes(&x[..], &y[..]).map(|c| change_json(&c)).collect()))
                .collect();
            // a raw script (consecutive deletes / inserts / equals are not merged) re-applied op by
            // op to one capturing hook must come back unchanged
            let raw = random_script(&mut rng, &x, &y);
            let mut cap = Capture::new();
            for op in &raw {
                op.apply_to_hook(&mut cap).unwrap();
            }
            (ops_json(diff.ops()), all, per, ops_json(&ops), per2, ops_json(&raw), ops_json(cap.ops()))
        });
        match r {
            Some((dops, all, per, ops2, per2, raw, recap)) => out.emit(&json!({"ev":"expand_all","case":case,"panic":false,
                "old":seq_json(&x),"new":seq_json(&y),"ops":dops,"all":all,"per_op":per,"ops2":ops2,"per_op2":per2,
                "raw":raw,"recaptured":recap})),
            None => out.emit(&json!({"ev":"expand_all","case":case,"panic":true,"old":seq_json(&x),"new":seq_json(&y),
                "ops":[],"all":[],"per_op":[],"ops2":[],"per_op2":[],"raw":[],"recaptured":[]})),
        }
    }
}
