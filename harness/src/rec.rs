//! Recording machinery: counting element type, range-checked lookup,
//! thread-local event buffer, recording/failing hooks, virtual clock.
use serde_json::{json, Value};
use similar::algorithms::DiffHook;
use similar::DiffOp;
use std::cell::{Cell, RefCell};
use std::hash::{Hash, Hasher};
use std::ops::Index;

thread_local! {
    static CMPS: Cell<u64> = Cell::new(0);
    static EVENTS: RefCell<Vec<Value>> = RefCell::new(Vec::new());
    static PROBES: Cell<i64> = Cell::new(0);
    static FIRST_EXPIRED_CMPS: Cell<i64> = Cell::new(-1);
}

pub fn cmps() -> u64 {
    CMPS.with(|c| c.get())
}
pub fn reset_cmps() {
    CMPS.with(|c| c.set(0));
}

/// Element type whose `==` is counted.
#[derive(Clone, Copy, Debug, Eq, PartialOrd, Ord)]
pub struct Item(pub u32);

impl PartialEq for Item {
    fn eq(&self, other: &Item) -> bool {
        CMPS.with(|c| c.set(c.get() + 1));
        self.0 == other.0
    }
}
impl Hash for Item {
    fn hash<H: Hasher>(&self, state: &mut H) {
        self.0.hash(state)
    }
}

/// The same with a long hash input: 80 constant bytes in front of the value (like long lines or
/// paths with a long common prefix); `==` is counted on the same counter.
#[derive(Clone, Copy, Debug, Eq, PartialOrd, Ord)]
pub struct LongItem(pub u32);
impl PartialEq for LongItem {
    fn eq(&self, other: &LongItem) -> bool {
        CMPS.with(|c| c.set(c.get() + 1));
        self.0 == other.0
    }
}
impl Hash for LongItem {
    fn hash<H: Hasher>(&self, state: &mut H) {
        state.write(&[0x61u8; 80]);
        self.0.hash(state)
    }
}

pub fn items(xs: &[u32]) -> Vec<Item> {
    xs.iter().map(|x| Item(*x)).collect()
}

/// A lookup that panics on any access outside `lo..hi` (like a windowed view).
pub struct Window {
    pub data: Vec<Item>,
    pub lo: usize,
    pub hi: usize,
}

impl Index<usize> for Window {
    type Output = Item;
    fn index(&self, i: usize) -> &Item {
        if i < self.lo || i >= self.hi {
            panic!("window access {} outside {}..{}", i, self.lo, self.hi);
        }
        &self.data[i]
    }
}

// ---------------------------------------------------------------- events

pub fn push_event(v: Value) {
    EVENTS.with(|e| e.borrow_mut().push(v));
}
pub fn take_events() -> Vec<Value> {
    EVENTS.with(|e| std::mem::take(&mut *e.borrow_mut()))
}
pub fn clear_events() {
    EVENTS.with(|e| e.borrow_mut().clear());
}

/// Install a virtual clock that answers `true` from the `fuel`-th probe on
/// (0-based); fuel < 0 means never.  Every probe is logged as an event.
pub fn install_clock(fuel: i64, log: bool) {
    PROBES.with(|p| p.set(0));
    FIRST_EXPIRED_CMPS.with(|p| p.set(-1));
    similar::verif_hooks::install_clock(Some(Box::new(move || {
        let i = PROBES.with(|p| {
            let v = p.get();
            p.set(v + 1);
            v
        });
        let exp = fuel >= 0 && i >= fuel;
        if exp {
            FIRST_EXPIRED_CMPS.with(|p| {
                if p.get() < 0 {
                    p.set(cmps() as i64)
                }
            });
        }
        if log {
            push_event(json!({"ev":"probe","i":i,"exp":exp,"cmps":cmps()}));
        }
        exp
    })));
}
/// A hostile clock for entry points that take NO deadline: every deadline check made with a
/// deadline present is answered "exceeded".  Code that passes `None` never asks, so on such
/// paths the clock must be unobservable.
pub fn install_hostile_clock() {
    similar::verif_hooks::install_clock(Some(Box::new(|| true)));
}
pub fn hostile<T>(f: impl FnOnce() -> T) -> T {
    install_hostile_clock();
    let r = f();
    remove_clock();
    r
}
pub fn remove_clock() {
    similar::verif_hooks::install_clock(None);
}
pub fn probes() -> i64 {
    PROBES.with(|p| p.get())
}
pub fn first_expired_cmps() -> i64 {
    FIRST_EXPIRED_CMPS.with(|p| p.get())
}
/// an Instant far enough in the future that the real clock never fires
pub fn far_future() -> std::time::Instant {
    std::time::Instant::now() + std::time::Duration::from_secs(86400 * 365)
}

// ---------------------------------------------------------------- hooks

/// Recording hook.  `fail_at` = index (0-based, counting every call incl.
/// finish) of the call that returns `Err(index)`.
pub struct Rec {
    pub calls: i64,
    pub fail_at: i64,
}

impl Rec {
    pub fn new(fail_at: i64) -> Rec {
        Rec { calls: 0, fail_at }
    }
    fn done(&mut self, mut v: Value) -> Result<(), i64> {
        let k = self.calls;
        self.calls += 1;
        let fail = k == self.fail_at;
        v["call"] = json!(k);
        v["err"] = json!(fail);
        v["cmps"] = json!(cmps());
        push_event(v);
        if fail {
            Err(k)
        } else {
            Ok(())
        }
    }
}

thread_local! {
    /// index bases of the running case (far-position lookups): events are logged relative to them
    static BASES: Cell<(usize, usize)> = Cell::new((0, 0));
}
pub fn set_bases(bo: usize, bn: usize) {
    BASES.with(|b| b.set((bo, bn)));
}
/// position relative to the base; anything outside 0..10^9 is logged as the impossible 999 999 999
fn rel(v: usize, base: usize) -> usize {
    let d = v.wrapping_sub(base);
    if d > 1_000_000_000 {
        999_999_999
    } else {
        d
    }
}
fn len_ok(v: usize) -> usize {
    v.min(999_999_999)
}

/// A lookup over a far-away index window: item i lives at position base + i; any access outside
/// the window panics.
pub struct FarLookup {
    pub data: Vec<Item>,
    pub base: usize,
}
impl Index<usize> for FarLookup {
    type Output = Item;
    fn index(&self, i: usize) -> &Item {
        let k = i.wrapping_sub(self.base);
        if k >= self.data.len() {
            panic!("far lookup access outside the window");
        }
        &self.data[k]
    }
}

impl DiffHook for Rec {
    type Error = i64;
    fn equal(&mut self, o: usize, n: usize, len: usize) -> Result<(), i64> {
        let (bo, bn) = BASES.with(|b| b.get());
        self.done(json!({"ev":"equal","o":rel(o, bo),"n":rel(n, bn),"len":len_ok(len)}))
    }
    fn delete(&mut self, o: usize, len: usize, n: usize) -> Result<(), i64> {
        let (bo, bn) = BASES.with(|b| b.get());
        self.done(json!({"ev":"delete","o":rel(o, bo),"len":len_ok(len),"n":rel(n, bn)}))
    }
    fn insert(&mut self, o: usize, n: usize, len: usize) -> Result<(), i64> {
        let (bo, bn) = BASES.with(|b| b.get());
        self.done(json!({"ev":"insert","o":rel(o, bo),"n":rel(n, bn),"len":len_ok(len)}))
    }
    fn replace(&mut self, o: usize, ol: usize, n: usize, nl: usize) -> Result<(), i64> {
        let (bo, bn) = BASES.with(|b| b.get());
        self.done(json!({"ev":"replace","o":rel(o, bo),"ol":len_ok(ol),"n":rel(n, bn),"nl":len_ok(nl)}))
    }
    fn finish(&mut self) -> Result<(), i64> {
        self.done(json!({"ev":"finish"}))
    }
}

/// Same as `Rec` but does not override `replace` (default = delete + insert).
pub struct RecNoReplace(pub Rec);

impl DiffHook for RecNoReplace {
    type Error = i64;
    fn equal(&mut self, o: usize, n: usize, len: usize) -> Result<(), i64> {
        self.0.equal(o, n, len)
    }
    fn delete(&mut self, o: usize, len: usize, n: usize) -> Result<(), i64> {
        self.0.delete(o, len, n)
    }
    fn insert(&mut self, o: usize, n: usize, len: usize) -> Result<(), i64> {
        self.0.insert(o, n, len)
    }
    fn finish(&mut self) -> Result<(), i64> {
        self.0.finish()
    }
}

// ---------------------------------------------------------------- ops json

/// [tag, old_index, old_len, new_index, new_len]; tag 0=Equal 1=Delete 2=Insert 3=Replace
pub fn op_json(op: &DiffOp) -> Value {
    match *op {
        DiffOp::Equal {
            old_index,
            new_index,
            len,
        } => json!([0, old_index, len, new_index, len]),
        DiffOp::Delete {
            old_index,
            old_len,
            new_index,
        } => json!([1, old_index, old_len, new_index, 0]),
        DiffOp::Insert {
            old_index,
            new_index,
            new_len,
        } => json!([2, old_index, 0, new_index, new_len]),
        DiffOp::Replace {
            old_index,
            old_len,
            new_index,
            new_len,
        } => json!([3, old_index, old_len, new_index, new_len]),
    }
}
pub fn ops_json(ops: &[DiffOp]) -> Value {
    Value::Array(ops.iter().map(op_json).collect())
}

pub fn op_from(v: &[i64]) -> DiffOp {
    let u = |x: i64| x as usize;
    match v[0] {
        0 => DiffOp::Equal {
            old_index: u(v[1]),
            new_index: u(v[3]),
            len: u(v[2]),
        },
        1 => DiffOp::Delete {
            old_index: u(v[1]),
            old_len: u(v[2]),
            new_index: u(v[3]),
        },
        2 => DiffOp::Insert {
            old_index: u(v[1]),
            new_index: u(v[3]),
            new_len: u(v[4]),
        },
        _ => DiffOp::Replace {
            old_index: u(v[1]),
            old_len: u(v[2]),
            new_index: u(v[3]),
            new_len: u(v[4]),
        },
    }
}

/// run `f` catching panics; returns None on panic
pub fn guarded<T>(f: impl FnOnce() -> T) -> Option<T> {
    let r = std::panic::catch_unwind(std::panic::AssertUnwindSafe(f));
    if r.is_err() {
        // a panic may have left thread-local hooks installed
        remove_clock();
        similar::verif_hooks::set_swap_repair(false);
        similar::verif_hooks::install_cleanup_tracer(None);
    }
    r.ok()
}

/// Item types with legal but adversarial `Hash` implementations: equal items hash
/// equally, but many unequal items collide.  Equality/order are those of the value.
#[derive(Clone, Copy, Debug, PartialEq, Eq, PartialOrd, Ord)]
pub struct WeakHash(pub u32);
impl Hash for WeakHash {
    fn hash<H: Hasher>(&self, state: &mut H) {
        (self.0 / 2).hash(state)
    }
}
#[derive(Clone, Copy, Debug, PartialEq, Eq, PartialOrd, Ord)]
pub struct ConstHash(pub u32);
impl Hash for ConstHash {
    fn hash<H: Hasher>(&self, state: &mut H) {
        7u8.hash(state)
    }
}

/// Two different element types for the old and the new side: cross-type equality is that of the
/// values, but equal values of the two types hash differently (like `Ipv4Addr` vs `IpAddr`) -
/// the API only requires `New::Output: PartialEq<Old::Output>`.
#[derive(Clone, Copy, Debug, PartialEq, Eq, PartialOrd, Ord, Hash)]
pub struct OldT(pub u32);
#[derive(Clone, Copy, Debug, PartialEq, Eq, PartialOrd, Ord)]
pub struct NewT(pub u32);
impl Hash for NewT {
    fn hash<H: Hasher>(&self, state: &mut H) {
        (self.0 as u64 ^ 0x9e37_79b9_7f4a_7c15).hash(state);
        1u8.hash(state)
    }
}
impl PartialEq<OldT> for NewT {
    fn eq(&self, other: &OldT) -> bool {
        self.0 == other.0
    }
}
