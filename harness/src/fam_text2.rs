//! More text families: C14 (text diff = sequence diff, IdentifyDistinct), C17 (remapper,
//! helpers), C20 (determinism), C18 (close matches), C16 (inline), C05 (unified diff).
use crate::fam_h::{alg_name, ALGS};
use crate::fam_text::{has_unicode, make_diff, text_pairs, tokenize, DIFF_KINDS};
use crate::gen;
use crate::rec::{self, ops_json};
use crate::textgen;
use crate::util::{bytes_json, seq_json, Args, Out, Rng};
use serde_json::{json, Value};
use similar::algorithms::IdentifyDistinct;
use similar::utils::TextDiffRemapper;
use similar::{capture_diff_slices, Algorithm, ChangeTag, DiffableStr, TextDiff};

fn tagnum(t: ChangeTag) -> i64 {
    match t {
        ChangeTag::Equal => 0,
        ChangeTag::Delete => 1,
        ChangeTag::Insert => 2,
    }
}

// ------------------------------------------------------------------ C14

fn textops_record<T: DiffableStr + ?Sized>(
    case: i64,
    alg: Algorithm,
    kind: &str,
    mode: &str,
    ovr: i64,
    old: &T,
    new: &T,
) -> Value {
    let r = rec::guarded(|| {
        let mut cfg = TextDiff::configure();
        cfg.algorithm(alg);
        if ovr >= 0 {
            cfg.newline_terminated(ovr == 1);
        }
        if kind == "slices" {
            // diff_slices over the line tokens: not newline-terminated unless overridden
            let ot = old.tokenize_lines();
            let nt = new.tokenize_lines();
            let diff = cfg.diff_slices(&ot, &nt);
            let slice_ops = capture_diff_slices(alg, &ot, &nt);
            return Some((
                ops_json(diff.ops()),
                ops_json(&slice_ops),
                alg_name(diff.algorithm()),
                diff.newline_terminated(),
                ot.len(),
                nt.len(),
            ));
        }
        let diff = match kind {
            "lines" => cfg.diff_lines(old, new),
            "words" => cfg.diff_words(old, new),
            "chars" => cfg.diff_chars(old, new),
            #[cfg(feature = "unicode")]
            "uwords" => cfg.diff_unicode_words(old, new),
            #[cfg(feature = "unicode")]
            "graphemes" => cfg.diff_graphemes(old, new),
            _ => return None,
        };
        let ot = tokenize(old, kind)?;
        let nt = tokenize(new, kind)?;
        let slice_ops = capture_diff_slices(alg, &ot, &nt);
        Some((
            ops_json(diff.ops()),
            ops_json(&slice_ops),
            alg_name(diff.algorithm()),
            diff.newline_terminated(),
            ot.len(),
            nt.len(),
        ))
    });
    let base = json!({"ev":"textops","case":case,"alg":alg_name(alg),"kind":kind,"mode":mode,"override":ovr,
        "old":bytes_json(old.as_bytes()),"new":bytes_json(new.as_bytes())});
    let mut v = base;
    match r {
        Some(Some((t, s, ra, nlt, no, nn))) => {
            v["panic"] = json!(false);
            v["text_ops"] = t;
            v["slice_ops"] = s;
            v["reported_alg"] = json!(ra);
            v["newline_terminated"] = json!(nlt);
            v["ntok_old"] = json!(no);
            v["ntok_new"] = json!(nn);
        }
        _ => {
            v["panic"] = json!(true);
            v["text_ops"] = json!([]);
            v["slice_ops"] = json!([]);
            v["reported_alg"] = json!("");
            v["newline_terminated"] = json!(false);
            v["ntok_old"] = json!(0);
            v["ntok_new"] = json!(0);
        }
    }
    v
}

/// a text whose tokenization (any tokenizer) has about `ntok` tokens: "w<k> " words, one per line
pub fn long_text(rng: &mut Rng, ntok: usize, alpha: usize, kind: &str) -> String {
    let mut s = String::new();
    let mut count = 0;
    while count < ntok {
        let k = rng.below(alpha);
        match kind {
            "lines" => {
                s.push_str(&format!("l{}\n", k));
                count += 1;
            }
            "chars" | "graphemes" => {
                s.push(char::from(b'a' + (k % 26) as u8));
                count += 1;
            }
            _ => {
                s.push_str(&format!("w{} ", k));
                count += 2;
            }
        }
    }
    s
}

pub fn mutate_text(rng: &mut Rng, s: &str, kind: &str, edits: usize, alpha: usize) -> String {
    let toks: Vec<String> = match kind {
        "lines" => s.tokenize_lines().iter().map(|x| x.to_string()).collect(),
        "chars" | "graphemes" => s.tokenize_chars().iter().map(|x| x.to_string()).collect(),
        _ => s.tokenize_words().iter().map(|x| x.to_string()).collect(),
    };
    let mut t = toks;
    for _ in 0..edits {
        if t.is_empty() {
            break;
        }
        let p = rng.below(t.len());
        match rng.below(4) {
            0 => {
                t.remove(p);
            }
            1 => {
                let x = long_text(rng, 1, alpha, kind);
                t.insert(p, x);
            }
            2 => {
                // move a block
                let l = rng.range(1, (t.len() - p).min(6));
                let blk: Vec<String> = t.drain(p..p + l).collect();
                let q = rng.below(t.len() + 1);
                for (i, x) in blk.into_iter().enumerate() {
                    t.insert(q + i, x);
                }
            }
            _ => {
                t[p] = long_text(rng, 1, alpha, kind);
            }
        }
    }
    t.concat()
}

pub fn drive_c14(a: &Args, out: &mut Out) {
    let mut rng = Rng::new(a.num("seed", 1));
    let thorough = a.thorough();
    // small texts: every tokenizer / algorithm / override
    let pairs = text_pairs(&mut rng, false, true);
    let step = if thorough { 1 } else { 6 };
    for (i, (x, y)) in pairs.iter().enumerate().step_by(step) {
        for (ki, kind) in DIFF_KINDS.iter().enumerate() {
            if !has_unicode() && (*kind == "uwords" || *kind == "graphemes") {
                continue;
            }
            let alg = ALGS[(i + ki) % 3];
            let ovr = ((i + ki) % 3) as i64 - 1;
            let case = out.next_case();
            out.emit(&textops_record::<[u8]>(case, alg, kind, "bytes", ovr, x, y));
            if let (Ok(xs), Ok(ys)) = (std::str::from_utf8(x), std::str::from_utf8(y)) {
                let case = out.next_case();
                out.emit(&textops_record::<str>(case, alg, kind, "str", ovr, xs, ys));
                if ki == 0 {
                    let case = out.next_case();
                    out.emit(&textops_record::<str>(case, alg, "slices", "str", ovr, xs, ys));
                }
                // a user-defined DiffableStr type (ASCII-case-insensitive ==): the letters of the
                // new text get a random case, so many tokens are equal without being identical
                if ki < 3 && i % 2 == 0 {
                    let yc: String = ys
                        .chars()
                        .map(|c| if c.is_ascii_alphabetic() && rng.chance(1, 2) { c.to_ascii_uppercase() } else { c })
                        .collect();
                    let case = out.next_case();
                    out.emit(&textops_record::<crate::ci::Ci>(case, alg, kind, "ci", ovr, crate::ci::Ci::new(xs), crate::ci::Ci::new(&yc)));
                }
            }
        }
    }
    // token counts on both sides of the 100-token threshold
    let nbig = if thorough { 400 } else { 45 };
    for i in 0..nbig {
        let kind = DIFF_KINDS[i % 3]; // lines, words, chars
        let ntok = rng.range(90, 135);
        let alpha = *rng.pick(&[3usize, 6, 40]);
        let x = long_text(&mut rng, ntok, alpha, kind);
        let e = rng.range(1, 10);
        let y = mutate_text(&mut rng, &x, kind, e, alpha);
        for alg in ALGS {
            let case = out.next_case();
            out.emit(&textops_record::<str>(case, alg, kind, "str", -1, &x, &y));
            if i % 3 == 0 {
                let case = out.next_case();
                out.emit(&textops_record::<[u8]>(case, alg, kind, "bytes", -1, x.as_bytes(), y.as_bytes()));
            }
            if i % 3 == 1 {
                let yc: String = y
                    .chars()
                    .map(|c| if c.is_ascii_alphabetic() && rng.chance(1, 2) { c.to_ascii_uppercase() } else { c })
                    .collect();
                let case = out.next_case();
                out.emit(&textops_record::<crate::ci::Ci>(case, alg, kind, "ci", -1, crate::ci::Ci::new(&x), crate::ci::Ci::new(&yc)));
            }
        }
    }
    // more distinct tokens than a narrow integer type can number (the ids must not wrap):
    // the last old token collides with the id of token 0 if ids are u8 / u16
    for &distinct in &[256usize, 65536, 0] {
        let mut x = String::new();
        for k in 0..distinct {
            x.push_str(&format!("l{}\n", k));
        }
        let mut y = format!("{}l0\n", x);
        x.push_str("A\n");
        if distinct == 0 {
            // both sides below 65 536 tokens, together more than 65 536 distinct ones:
            // 1 500 rewritten head lines in front of 63 000 common lines
            let tail: String = (0..63_000).map(|k| format!("t{}\n", k)).collect();
            x = (0..1500).map(|k| format!("a{}\n", k)).collect::<String>() + &tail;
            y = (0..1500).map(|k| format!("b{}\n", k)).collect::<String>() + &tail;
        }
        for alg in ALGS {
            let case = out.next_case();
            let mut v = textops_record::<str>(case, alg, "lines", "str", -1, &x, &y);
            v["old"] = json!([]);
            v["new"] = json!([]);
            v["big"] = json!(distinct);
            out.emit(&v);
        }
    }
    // a differing middle of more than 2048 x 2048 tokens (quadratic tables must not change the
    // algorithm that is run): LCS only, where LCS and Myers disagree
    {
        let mk = |rng: &mut Rng| -> String { (0..2100).map(|_| format!("l{}\n", rng.below(60))).collect() };
        let x = format!("head\n{}tail\n", mk(&mut rng));
        let y = format!("head\n{}tail\n", mk(&mut rng));
        let case = out.next_case();
        let mut v = textops_record::<str>(case, Algorithm::Lcs, "lines", "str", -1, &x, &y);
        v["old"] = json!([]);
        v["new"] = json!([]);
        v["big"] = json!(2100);
        out.emit(&v);
    }
    // IdentifyDistinct
    let nid = if thorough { 6000 } else { 600 };
    for i in 0..nid {
        let (x, y) = if i % 5 == 0 {
            // long with repeats (>= 64 items)
            let n = rng.range(64, 140);
            let alpha = rng.range(2, 30) as u32;
            let x: Vec<u32> = (0..n).map(|_| rng.below(alpha as usize) as u32).collect();
            let e = rng.range(0, 6);
            let y = gen::mutate(&mut rng, &x, e, alpha + 3);
            (x, y)
        } else {
            gen::random_pair(&mut rng, 20)
        };
        let (po, os, oe, pn, ns, ne) = gen::pad(&mut rng, &x, &y, 3);
        let ty = ["u8", "u16", "u32", "u64"][i % 4];
        let case = out.next_case();
        let r = rec::guarded(|| {
            macro_rules! run {
                ($t:ty) => {{
                    let h = IdentifyDistinct::<$t>::new(&po[..], os..oe, &pn[..], ns..ne);
                    let oi: Vec<u64> = h.old_range().map(|i| h.old_lookup()[i] as u64).collect();
                    let ni: Vec<u64> = h.new_range().map(|i| h.new_lookup()[i] as u64).collect();
                    (oi, ni, h.old_range(), h.new_range())
                }};
            }
            if i % 3 == 1 {
                // items with a legal but colliding Hash implementation
                let pow: Vec<rec::WeakHash> = po.iter().map(|v| rec::WeakHash(*v)).collect();
                let pnw: Vec<rec::WeakHash> = pn.iter().map(|v| rec::WeakHash(*v)).collect();
                let h = IdentifyDistinct::<u32>::new(&pow[..], os..oe, &pnw[..], ns..ne);
                let oi: Vec<u64> = h.old_range().map(|i| h.old_lookup()[i] as u64).collect();
                let ni: Vec<u64> = h.new_range().map(|i| h.new_lookup()[i] as u64).collect();
                return (oi, ni, h.old_range(), h.new_range());
            }
            match ty {
                "u8" => run!(u8),
                "u16" => run!(u16),
                "u32" => run!(u32),
                _ => run!(u64),
            }
        });
        let mut v = json!({"ev":"identify","case":case,"int":ty,"old":seq_json(&po),"new":seq_json(&pn),
            "os":os,"oe":oe,"ns":ns,"ne":ne});
        match r {
            Some((oi, ni, or, nr)) => {
                v["panic"] = json!(false);
                v["old_ids"] = json!(oi);
                v["new_ids"] = json!(ni);
                v["ranges"] = json!([or.start, or.end, nr.start, nr.end]);
            }
            None => {
                v["panic"] = json!(true);
                v["old_ids"] = json!([]);
                v["new_ids"] = json!([]);
                v["ranges"] = json!([]);
            }
        }
        out.emit(&v);
    }
}

// ------------------------------------------------------------------ C17

fn off<T: DiffableStr + ?Sized>(base: &T, s: &T) -> i64 {
    let b = base.as_bytes().as_ptr() as usize;
    let p = s.as_bytes().as_ptr() as usize;
    if s.as_bytes().is_empty() {
        return -1;
    }
    if p >= b && p + s.as_bytes().len() <= b + base.as_bytes().len() {
        (p - b) as i64
    } else {
        -2
    }
}

fn remap_record<T: DiffableStr + ?Sized>(case: i64, alg: Algorithm, kind: &str, mode: &str, old: &T, new: &T) -> Value {
    // every other case hands the remapper equal texts that live in another allocation (clones):
    // the slices must then be substrings of those
    let cloned = case % 2 == 1;
    let (oc, nc) = (old.to_owned(), new.to_owned());
    let r = rec::guarded(|| {
        use std::borrow::Borrow;
        let diff = make_diff(alg, kind, old, new)?;
        let (old, new): (&T, &T) = if cloned { (oc.borrow(), nc.borrow()) } else { (old, new) };
        let remapper = TextDiffRemapper::from_text_diff(&diff, old, new);
        let mut per_op = vec![];
        for op in diff.ops() {
            let remapped: Vec<Value> = remapper
                .iter_slices(op)
                .map(|(t, s)| {
                    let base = if t == ChangeTag::Insert { new } else { old };
                    json!([tagnum(t), bytes_json(s.as_bytes()), off(base, s)])
                })
                .collect();
            let tokens: Vec<Value> = op
                .iter_slices(diff.old_slices(), diff.new_slices())
                .map(|(t, ss)| json!([tagnum(t), Value::Array(ss.iter().map(|x| bytes_json(x.as_bytes())).collect())]))
                .collect();
            per_op.push(json!({"remapped": remapped, "tokens": tokens}));
        }
        Some((ops_json(diff.ops()), per_op))
    });
    let mut v = json!({"ev":"remap","case":case,"alg":alg_name(alg),"kind":kind,"mode":mode,
        "old":bytes_json(old.as_bytes()),"new":bytes_json(new.as_bytes())});
    match r {
        Some(Some((ops, per))) => {
            v["panic"] = json!(false);
            v["ops"] = ops;
            v["per_op"] = json!(per);
        }
        _ => {
            v["panic"] = json!(true);
            v["ops"] = json!([]);
            v["per_op"] = json!([]);
        }
    }
    v
}

fn helper_record<T: DiffableStr + ?Sized>(case: i64, alg: Algorithm, f: &str, mode: &str, old: &T, new: &T) -> Value {
    let r = rec::guarded(|| {
        let res: Vec<(ChangeTag, &T)> = match f {
            "diff_chars" => similar::utils::diff_chars(alg, old, new),
            "diff_words" => similar::utils::diff_words(alg, old, new),
            "diff_lines" => similar::utils::diff_lines(alg, old, new),
            #[cfg(feature = "unicode")]
            "diff_unicode_words" => similar::utils::diff_unicode_words(alg, old, new),
            #[cfg(feature = "unicode")]
            "diff_graphemes" => similar::utils::diff_graphemes(alg, old, new),
            _ => return None,
        };
        Some(
            res.iter()
                .map(|(t, s)| json!([tagnum(*t), bytes_json(s.as_bytes())]))
                .collect::<Vec<Value>>(),
        )
    });
    let mut v = json!({"ev":"helper","case":case,"alg":alg_name(alg),"fn":f,"mode":mode,
        "old":bytes_json(old.as_bytes()),"new":bytes_json(new.as_bytes())});
    match r {
        Some(Some(res)) => {
            v["panic"] = json!(false);
            v["result"] = json!(res);
        }
        Some(None) => {
            v["panic"] = json!(false);
            v["skip"] = json!(true);
            v["result"] = json!([]);
        }
        None => {
            v["panic"] = json!(true);
            v["result"] = json!([]);
        }
    }
    v
}

pub fn drive_c17(a: &Args, out: &mut Out) {
    let mut rng = Rng::new(a.num("seed", 1));
    let pairs = text_pairs(&mut rng, a.thorough(), true);
    let helpers = ["diff_chars", "diff_words", "diff_lines", "diff_unicode_words", "diff_graphemes"];
    for (i, (x, y)) in pairs.iter().enumerate() {
        for (ki, kind) in DIFF_KINDS.iter().enumerate() {
            if !has_unicode() && (*kind == "uwords" || *kind == "graphemes") {
                continue;
            }
            let alg = ALGS[(i + ki) % 3];
            let case = out.next_case();
            out.emit(&remap_record::<[u8]>(case, alg, kind, "bytes", x, y));
            if let (Ok(xs), Ok(ys)) = (std::str::from_utf8(x), std::str::from_utf8(y)) {
                let case = out.next_case();
                out.emit(&remap_record::<str>(case, alg, kind, "str", xs, ys));
            }
        }
        for (hi, h) in helpers.iter().enumerate() {
            if !has_unicode() && hi >= 3 {
                continue;
            }
            let alg = ALGS[(i + hi) % 3];
            let case = out.next_case();
            out.emit(&helper_record::<[u8]>(case, alg, h, "bytes", x, y));
            if let (Ok(xs), Ok(ys)) = (std::str::from_utf8(x), std::str::from_utf8(y)) {
                let case = out.next_case();
                out.emit(&helper_record::<str>(case, alg, h, "str", xs, ys));
            }
        }
        // utils::diff_slices on integer slices
        if i % 4 == 0 {
            let (p, q) = gen::random_pair(&mut rng, 12);
            for alg in ALGS {
                let case = out.next_case();
                let r = rec::guarded(|| {
                    similar::utils::diff_slices(alg, &p, &q)
                        .iter()
                        .map(|(t, s)| json!([tagnum(*t), seq_json(s)]))
                        .collect::<Vec<Value>>()
                });
                out.emit(&json!({"ev":"helper","case":case,"alg":alg_name(alg),"fn":"diff_slices","mode":"ints",
                    "old":seq_json(&p),"new":seq_json(&q),"panic":r.is_none(),"result":r.unwrap_or_default(),"items":true}));
            }
        }
    }
}

// ------------------------------------------------------------------ C20

fn relabel(rng: &mut Rng, x: &[u32], y: &[u32]) -> (Vec<u32>, Vec<u32>) {
    // order-preserving injective map on the values that occur
    let mut vals: Vec<u32> = x.iter().chain(y.iter()).cloned().collect();
    vals.sort();
    vals.dedup();
    let mut next = rng.below(5) as u32;
    let mut map = std::collections::HashMap::new();
    for v in vals {
        next += 1 + rng.below(1000) as u32;
        map.insert(v, next);
    }
    (x.iter().map(|v| map[v]).collect(), y.iter().map(|v| map[v]).collect())
}

pub fn drive_c20(a: &Args, out: &mut Out) {
    let mut rng = Rng::new(a.num("seed", 1));
    let thorough = a.thorough();
    let mut pairs = gen::exhaustive_pairs(3, 3);
    let nrand = if thorough { 8000 } else { 800 };
    for _ in 0..nrand {
        pairs.push(gen::random_pair(&mut rng, if thorough { 60 } else { 24 }));
    }
    for (x, y) in pairs.iter() {
        for alg in ALGS {
            let base = capture_diff_slices(alg, x, y);
            let mut variants: Vec<Value> = vec![];
            let mut runs: Vec<Value> = vec![ops_json(&base)];
            // repeated, on fresh threads (fresh RandomState keys)
            for _ in 0..2 {
                let (x2, y2) = (x.clone(), y.clone());
                let ops = std::thread::spawn(move || capture_diff_slices(alg, &x2, &y2)).join();
                runs.push(match ops {
                    Ok(o) => ops_json(&o),
                    Err(_) => json!([[-1]]),
                });
            }
            // relabelled, on fresh threads
            for _ in 0..2 {
                let (x2, y2) = relabel(&mut rng, x, y);
                variants.push(json!([seq_json(&x2), seq_json(&y2)]));
                let ops = std::thread::spawn(move || capture_diff_slices(alg, &x2, &y2)).join();
                runs.push(match ops {
                    Ok(o) => ops_json(&o),
                    Err(_) => json!([[-1]]),
                });
            }
            // the same items under legal but colliding Hash implementations (same equalities,
            // different hashes): identity relabelling as far as the property is concerned
            {
                let xw: Vec<rec::WeakHash> = x.iter().map(|v| rec::WeakHash(*v)).collect();
                let yw: Vec<rec::WeakHash> = y.iter().map(|v| rec::WeakHash(*v)).collect();
                variants.push(json!([seq_json(x), seq_json(y)]));
                runs.push(rec::guarded(|| ops_json(&capture_diff_slices(alg, &xw, &yw))).unwrap_or(json!([[-1]])));
                let xc: Vec<rec::ConstHash> = x.iter().map(|v| rec::ConstHash(*v)).collect();
                let yc: Vec<rec::ConstHash> = y.iter().map(|v| rec::ConstHash(*v)).collect();
                variants.push(json!([seq_json(x), seq_json(y)]));
                runs.push(rec::guarded(|| ops_json(&capture_diff_slices(alg, &xc, &yc))).unwrap_or(json!([[-1]])));
            }
            // old and new of different element types whose (lawful) Hash impls disagree for equal
            // values: same equalities, so the same ops
            {
                let xo: Vec<rec::OldT> = x.iter().map(|v| rec::OldT(*v)).collect();
                let yn: Vec<rec::NewT> = y.iter().map(|v| rec::NewT(*v)).collect();
                variants.push(json!([seq_json(x), seq_json(y)]));
                runs.push(
                    rec::guarded(|| ops_json(&similar::capture_diff(alg, &xo[..], 0..xo.len(), &yn[..], 0..yn.len())))
                        .unwrap_or(json!([[-1]])),
                );
            }
            let case = out.next_case();
            out.emit(&json!({"ev":"determ","case":case,"alg":alg_name(alg),"old":seq_json(x),"new":seq_json(y),
                "variants":variants,"runs":runs}));
        }
    }
    // an absolute deadline that has already passed (real clock): repeated calls on one thread and
    // a call on a fresh thread must all return the same ops (nothing may be remembered between
    // calls; with the deadline in the past every clock reading says "exceeded")
    for round in 0..(if thorough { 40 } else { 6 }) {
        let n = rng.range(30, 60);
        let x: Vec<u32> = (0..n as u32).collect();
        let e = rng.range(2, 4);
        let y = gen::mutate(&mut rng, &x, e, n as u32 + 5);
        for alg in ALGS {
            let (x1, y1) = (x.clone(), y.clone());
            let runs = std::thread::spawn(move || {
                let past = std::time::Instant::now();
                std::thread::sleep(std::time::Duration::from_millis(2));
                let mut runs: Vec<Value> = vec![];
                for k in 0..5 {
                    if k == 3 {
                        // an unrelated diff with its own (relative) timeout in between
                        let _ = similar::TextDiff::configure().timeout(std::time::Duration::from_secs(5)).diff_chars("abcde", "abXde").ops().len();
                    }
                    runs.push(rec::guarded(|| ops_json(&similar::capture_diff_slices_deadline(alg, &x1, &y1, Some(past)))).unwrap_or(json!([[-1]])));
                }
                let (x2, y2) = (x1.clone(), y1.clone());
                let fresh = std::thread::spawn(move || similar::capture_diff_slices_deadline(alg, &x2, &y2, Some(past))).join();
                runs.push(match fresh {
                    Ok(o) => ops_json(&o),
                    Err(_) => json!([[-1]]),
                });
                runs
            })
            .join()
            .unwrap_or_default();
            let case = out.next_case();
            out.emit(&json!({"ev":"determ","case":case,"alg":alg_name(alg),"old":seq_json(&x),"new":seq_json(&y),
                "expired_deadline":true,"round":round,"variants":[],"runs":runs}));
        }
    }
    // one TextDiffConfig with a relative timeout, used again after more than the timeout has passed
    // (and once more from another thread): the same diff must come back every time.  Real
    // clock; the diff takes microseconds, the timeout is 300 ms, the pause 450 ms.
    {
        let n = rng.range(30, 60);
        let x: Vec<u32> = (0..n as u32).collect();
        let e = rng.range(2, 4);
        let y = gen::mutate(&mut rng, &x, e, n as u32 + 5);
        let xt: String = x.iter().map(|v| format!("{}\n", v)).collect();
        let yt: String = y.iter().map(|v| format!("{}\n", v)).collect();
        let mut handles = vec![];
        for alg in ALGS {
            let (xt, yt) = (xt.clone(), yt.clone());
            handles.push(std::thread::spawn(move || {
                let mut cfg = similar::TextDiff::configure();
                cfg.algorithm(alg);
                cfg.timeout(std::time::Duration::from_millis(300));
                let mut runs = vec![ops_json(cfg.diff_lines(&xt[..], &yt[..]).ops())];
                std::thread::sleep(std::time::Duration::from_millis(450));
                runs.push(ops_json(cfg.diff_lines(&xt[..], &yt[..]).ops()));
                let cfg2 = cfg.clone();
                let (xt2, yt2) = (xt.clone(), yt.clone());
                let other = std::thread::spawn(move || ops_json(cfg2.diff_lines(&xt2[..], &yt2[..]).ops())).join();
                runs.push(other.unwrap_or(json!([[-1]])));
                (alg, runs)
            }));
        }
        for h in handles {
            if let Ok((alg, runs)) = h.join() {
                let case = out.next_case();
                out.emit(&json!({"ev":"determ","case":case,"alg":alg_name(alg),"old":seq_json(&x),"new":seq_json(&y),
                    "config_reuse":true,"variants":[],"runs":runs}));
            }
        }
    }
    // views into one buffer (same start address, overlapping, nested) against separate copies of
    // the same values: the result may depend on the values only, not on where they live
    for i in 0..(if thorough { 3000 } else { 400 }) {
        let n = rng.range(1, 16);
        let buf: Vec<u32> = (0..n).map(|_| rng.below(3) as u32).collect();
        let (a0, a1, b0, b1) = match i % 4 {
            0 => (0, n, 0, rng.below(n + 1)),
            1 => (0, rng.below(n + 1), 0, n),
            2 => {
                let s0 = rng.below(n + 1);
                (s0, n, s0, rng.range(s0, n))
            }
            _ => {
                let (p, q) = (rng.below(n + 1), rng.below(n + 1));
                let (r, t) = (rng.below(n + 1), rng.below(n + 1));
                (p.min(q), p.max(q), r.min(t), r.max(t))
            }
        };
        let (x, y) = (buf[a0..a1].to_vec(), buf[b0..b1].to_vec());
        for alg in ALGS {
            let copies = rec::guarded(|| ops_json(&capture_diff_slices(alg, &x, &y))).unwrap_or(json!([[-1]]));
            let views = rec::guarded(|| ops_json(&capture_diff_slices(alg, &buf[a0..a1], &buf[b0..b1]))).unwrap_or(json!([[-1]]));
            let txt: String = buf.iter().map(|v| format!("{}\n", v)).collect();
            let tviews = rec::guarded(|| {
                ops_json(similar::TextDiff::configure().algorithm(alg).diff_lines(&txt[2 * a0..2 * a1], &txt[2 * b0..2 * b1]).ops())
            })
            .unwrap_or(json!([[-1]]));
            let case = out.next_case();
            out.emit(&json!({"ev":"determ","case":case,"alg":alg_name(alg),"old":seq_json(&x),"new":seq_json(&y),
                "aliased":[a0, a1, b0, b1],"variants":[],"runs":[copies, views, tviews]}));
        }
    }
    // more than 65 536 unique items per side, with anchors that matter (Patience and Myers disagree):
    // blocks [S_1..S_20, U, r, r, r] against [S_1..S_20, r, r, r, U]
    {
        let blocks = 3400u32;
        let (mut x, mut y): (Vec<u32>, Vec<u32>) = (vec![], vec![]);
        for b in 0..blocks {
            let base = 10 + b * 30;
            for k in 0..20 {
                x.push(base + k);
                y.push(base + k);
            }
            x.push(base + 25);
            x.extend([1, 1, 1]);
            y.extend([1, 1, 1]);
            y.push(base + 25);
        }
        for alg in [Algorithm::Patience, Algorithm::Myers] {
            let mut runs: Vec<Value> = vec![];
            for _ in 0..3 {
                let (x2, y2) = (x.clone(), y.clone());
                let ops = std::thread::spawn(move || capture_diff_slices(alg, &x2, &y2)).join();
                runs.push(match ops {
                    Ok(o) => ops_json(&o),
                    Err(_) => json!([[-1]]),
                });
            }
            let case = out.next_case();
            out.emit(&json!({"ev":"determ","case":case,"alg":alg_name(alg),"old":[],"new":[],"big":x.len(),
                "variants":[],"runs":runs}));
        }
    }
    // str vs the same bytes
    let tp = text_pairs(&mut rng, thorough, false);
    for (i, (x, y)) in tp.iter().enumerate() {
        if let (Ok(xs), Ok(ys)) = (std::str::from_utf8(x), std::str::from_utf8(y)) {
            for (ki, kind) in ["lines", "words", "chars"].iter().enumerate() {
                let alg = ALGS[(i + ki) % 3];
                let a1 = rec::guarded(|| make_diff::<str>(alg, kind, xs, ys).map(|d| ops_json(d.ops()))).flatten();
                let b1 = rec::guarded(|| make_diff::<[u8]>(alg, kind, x, y).map(|d| ops_json(d.ops()))).flatten();
                let case = out.next_case();
                out.emit(&json!({"ev":"same","case":case,"clause":"str_bytes_ops","alg":alg_name(alg),"kind":kind,
                    "old":bytes_json(x),"new":bytes_json(y),
                    "a":a1.unwrap_or(json!([[-1]])),"b":b1.unwrap_or(json!([[-1]]))}));
            }
        }
    }
}
