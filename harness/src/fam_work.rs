//! Family W: comparison counts of Myers / Patience on larger inputs (C19).
use crate::gen;
use crate::rec::{self, Item};
use crate::util::{seq_json, Args, Out, Rng};
use serde_json::json;
use similar::algorithms::{diff_slices, DiffHook};
use similar::Algorithm;

#[derive(Default)]
struct CountHook {
    d: usize,
    calls: usize,
}
impl DiffHook for CountHook {
    type Error = ();
    fn delete(&mut self, _: usize, len: usize, _: usize) -> Result<(), ()> {
        self.d += len;
        self.calls += 1;
        Ok(())
    }
    fn insert(&mut self, _: usize, _: usize, len: usize) -> Result<(), ()> {
        self.d += len;
        self.calls += 1;
        Ok(())
    }
}

fn shapes(rng: &mut Rng, big: usize) -> Vec<(&'static str, Vec<u32>, Vec<u32>)> {
    let mut v = vec![];
    let n = rng.range(big / 2, big);
    // near identical, few edits, unique-ish items
    let a: Vec<u32> = (0..n as u32).collect();
    let e = rng.range(1, 8);
    v.push(("near_identical_unique", a.clone(), gen::mutate(rng, &a, e, n as u32 + 10)));
    // near identical over a small alphabet
    let alpha = *rng.pick(&[2u32, 4, 16]);
    let a: Vec<u32> = (0..n).map(|_| rng.below(alpha as usize) as u32).collect();
    let e = rng.range(1, 8);
    v.push(("near_identical_small_alpha", a.clone(), gen::mutate(rng, &a, e, alpha)));
    // block move of a large block
    let a: Vec<u32> = (0..n as u32).collect();
    let mut b = a.clone();
    if n >= 8 {
        let s = rng.below(n / 2);
        let l = rng.range(1, n / 4);
        let blk: Vec<u32> = b.drain(s..s + l).collect();
        let p = rng.below(b.len() + 1);
        for (i, x) in blk.into_iter().enumerate() {
            b.insert(p + i, x);
        }
    }
    v.push(("block_move", a, b));
    // periodic, shifted
    let p = rng.range(2, 7);
    let m = rng.range(big / 8, big / 4);
    let a: Vec<u32> = (0..m).map(|i| (i % p) as u32).collect();
    let off = rng.range(1, p - 1);
    let b: Vec<u32> = (0..m).map(|i| ((i + off) % p) as u32).collect();
    v.push(("periodic_shifted", a, b));
    // small alphabet random (large D)
    let m = rng.range(big / 16, big / 8);
    let a: Vec<u32> = (0..m).map(|_| rng.below(2) as u32).collect();
    let b: Vec<u32> = (0..m).map(|_| rng.below(2) as u32).collect();
    v.push(("random_binary", a, b));
    // large alphabet random
    let a: Vec<u32> = (0..m).map(|_| rng.below(1000) as u32).collect();
    let b: Vec<u32> = (0..m).map(|_| rng.below(1000) as u32).collect();
    v.push(("random_large_alpha", a, b));
    // unrelated
    let m = rng.range(big / 8, big / 4);
    let a: Vec<u32> = (0..m as u32).collect();
    let b: Vec<u32> = (0..m as u32).map(|x| x + 100000).collect();
    v.push(("unrelated", a, b));
    // one side empty / tiny
    let a: Vec<u32> = (0..n as u32).collect();
    v.push(("vs_tiny", a, vec![n as u32 / 2]));
    v
}

/// near-identical inputs of tens of thousands of items ("near-linear work regardless of their
/// length"): two edits at the far ends, a few scattered edits, a small block moved far away
fn huge_shapes(rng: &mut Rng) -> Vec<(&'static str, Vec<u32>, Vec<u32>)> {
    let mut v = vec![];
    let n = rng.range(20000, 40000);
    let a: Vec<u32> = (0..n as u32).collect();
    let mut b = a.clone();
    b[1] = 900_001;
    b[n - 2] = 900_002;
    v.push(("huge_two_far_edits", a.clone(), b));
    let mut b = a.clone();
    for k in 0..4 {
        let p = rng.below(n);
        b[p] = 900_010 + k;
    }
    v.push(("huge_scattered_edits", a.clone(), b));
    let mut b = a.clone();
    let blk: Vec<u32> = b.drain(100..110).collect();
    let p = n - 200;
    for (i, x) in blk.into_iter().enumerate() {
        b.insert(p + i, x);
    }
    v.push(("huge_small_block_moved_far", a.clone(), b));
    // the same over a small alphabet (no unique items: Patience hands everything to Myers)
    let a: Vec<u32> = (0..n).map(|i| (i % 3) as u32).collect();
    let mut b = a.clone();
    b[1] = 7;
    b[n - 2] = 8;
    v.push(("huge_periodic_two_far_edits", a, b));
    v
}

pub fn drive_c19(a: &Args, out: &mut Out) {
    let mut rng = Rng::new(a.num("seed", 1));
    let rounds = if a.thorough() { 40 } else { 6 };
    for r in 0..(if a.thorough() { 4 } else { 1 }) {
        let _ = r;
        for (fam, x, y) in huge_shapes(&mut rng) {
            for alg in [Algorithm::Myers, Algorithm::Patience] {
                let case = out.next_case();
                let o = rec::items(&x);
                let n = rec::items(&y);
                rec::reset_cmps();
                let mut h = CountHook::default();
                let ok = rec::guarded(|| diff_slices::<_, Item>(alg, &mut h, &o, &n)).is_some();
                out.emit(&json!({"ev":"work","case":case,"alg":crate::fam_h::alg_name(alg),"family":fam,
                    "n":x.len(),"m":y.len(),"d":h.d,"cmps":rec::cmps(),"panic":!ok,"has_seq":false,"old":[],"new":[]}));
            }
        }
    }
    for r in 0..rounds {
        let big = if r % 3 == 0 { 3000 } else if r % 3 == 1 { 800 } else { 240 };
        for (fam, x, y) in shapes(&mut rng, big) {
            for alg in [Algorithm::Myers, Algorithm::Patience] {
                let case = out.next_case();
                let o = rec::items(&x);
                let n = rec::items(&y);
                rec::reset_cmps();
                let mut h = CountHook::default();
                let ok = rec::guarded(|| diff_slices::<_, Item>(alg, &mut h, &o, &n)).is_some();
                let with_seq = x.len() <= 300 && y.len() <= 300;
                out.emit(&json!({"ev":"work","case":case,"alg":crate::fam_h::alg_name(alg),"family":fam,
                    "n":x.len(),"m":y.len(),"d":h.d,"cmps":rec::cmps(),"panic":!ok,
                    "has_seq":with_seq,
                    "old": if with_seq { seq_json(&x) } else { json!([]) },
                    "new": if with_seq { seq_json(&y) } else { json!([]) }}));
                // the same over items with a long hash input sharing its first 80 bytes
                if r % 2 == 0 {
                    let case = out.next_case();
                    let o: Vec<rec::LongItem> = x.iter().map(|v| rec::LongItem(*v)).collect();
                    let n: Vec<rec::LongItem> = y.iter().map(|v| rec::LongItem(*v)).collect();
                    rec::reset_cmps();
                    let mut h = CountHook::default();
                    let ok = rec::guarded(|| diff_slices::<_, rec::LongItem>(alg, &mut h, &o, &n)).is_some();
                    out.emit(&json!({"ev":"work","case":case,"alg":crate::fam_h::alg_name(alg),"family":fam,"items":"long_hash_input",
                        "n":x.len(),"m":y.len(),"d":h.d,"cmps":rec::cmps(),"panic":!ok,"has_seq":false,"old":[],"new":[]}));
                }
            }
        }
    }
}
