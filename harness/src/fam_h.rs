//! Family H: raw hook event streams of `algorithms::diff*`, optionally under
//! adapter stacks, a virtual deadline and a failing hook call.
use crate::gen::{self, Pair};
use crate::rec::{self, Item, Rec, RecNoReplace, Window};
use crate::util::{seq_json, Args, Out, Rng};
use serde_json::{json, Value};
use similar::algorithms::{self, Compact, DiffHook, NoFinishHook, Replace};
use similar::Algorithm;
use std::ops::{Index, Range};

pub const ALGS: [Algorithm; 3] = [Algorithm::Myers, Algorithm::Patience, Algorithm::Lcs];
pub fn alg_name(a: Algorithm) -> &'static str {
    match a {
        Algorithm::Myers => "myers",
        Algorithm::Patience => "patience",
        Algorithm::Lcs => "lcs",
    }
}
pub fn alg_from(s: &str) -> Algorithm {
    match s {
        "myers" => Algorithm::Myers,
        "patience" => Algorithm::Patience,
        "lcs" => Algorithm::Lcs,
        _ => panic!("unknown algorithm {}", s),
    }
}

pub const STACKS: [&str; 12] = [
    "none",
    "replace_over_compact",
    "mutref",
    "replace_ref",
    "nofinish",
    "replace_nofinish",
    "replace_nofinish_nr",
    "replace",
    "replace_nr",
    "compact",
    "compact_replace",
    "compact_replace_nr",
];

#[derive(Clone, Debug)]
pub struct HCase {
    pub alg: Algorithm,
    pub old: Vec<u32>,
    pub new: Vec<u32>,
    pub os: usize,
    pub oe: usize,
    pub ns: usize,
    pub ne: usize,
    /// "slice" (plain slices with ranges) or "window" (panics outside the range)
    pub index: &'static str,
    pub stack: &'static str,
    /// deadline: -2 = None; -1 = virtual clock that never expires; k>=0 expires at probe k
    pub fuel: i64,
    pub fail_at: i64,
    /// which public function is called: "dispatch_deadline" (algorithms::diff_deadline, default),
    /// "dispatch" (algorithms::diff), "module" (myers::diff / patience::diff / lcs::diff),
    /// "module_deadline" (their diff_deadline), "slices" / "slices_deadline"
    /// (algorithms::diff_slices(_deadline); whole slices, stack "none" only)
    pub entry: &'static str,
    /// 0 = ordinary positions; k > 0 = far-away index windows (lookup `FarLookup`), variant k of
    /// `far_bases`; os/oe/ns/ne stay relative to the window
    pub far: usize,
}

/// index bases of the far-position variants for windows of n / m items
pub fn far_bases(k: usize, n: usize, m: usize) -> (usize, usize) {
    let top = usize::MAX;
    let half = 1usize << 63;
    match k {
        1 => (top - n, 5),             // the old range ends at usize::MAX
        2 => (7, top - m),             // the new range ends at usize::MAX
        3 => (top - n, top - m),       // both do
        4 => (half - n / 2, 3),        // the old window straddles isize::MAX
        5 => (half - 1, half),         // old + new positions reach 2^64
        6 => (half + 1, half - m.min(half - 1)),
        7 => (1usize << 62, (1usize << 62) + 11),
        _ => (0, 0),
    }
}

impl HCase {
    pub fn simple(alg: Algorithm, old: &[u32], new: &[u32]) -> HCase {
        HCase {
            alg,
            old: old.to_vec(),
            new: new.to_vec(),
            os: 0,
            oe: old.len(),
            ns: 0,
            ne: new.len(),
            index: "slice",
            stack: "none",
            fuel: -2,
            fail_at: -1,
            entry: "dispatch_deadline",
            far: 0,
        }
    }
}

fn run_alg<L, D>(c: &HCase, d: &mut D, old: &L, new: &L) -> Result<(), D::Error>
where
    L: Index<usize, Output = Item> + ?Sized,
    D: DiffHook,
{
    let deadline = if c.fuel == -2 {
        None
    } else {
        Some(rec::far_future())
    };
    let (bo, bn) = if c.far > 0 { far_bases(c.far, c.old.len(), c.new.len()) } else { (0, 0) };
    let or: Range<usize> = bo + c.os..bo + c.oe;
    let nr: Range<usize> = bn + c.ns..bn + c.ne;
    match (c.entry, c.alg) {
        ("dispatch", _) if deadline.is_none() => algorithms::diff(c.alg, d, old, or, new, nr),
        ("module", Algorithm::Myers) if deadline.is_none() => algorithms::myers::diff(d, old, or, new, nr),
        ("module", Algorithm::Patience) if deadline.is_none() => algorithms::patience::diff(d, old, or, new, nr),
        ("module", Algorithm::Lcs) if deadline.is_none() => algorithms::lcs::diff(d, old, or, new, nr),
        ("module_deadline", Algorithm::Myers) | ("module", Algorithm::Myers) => algorithms::myers::diff_deadline(d, old, or, new, nr, deadline),
        ("module_deadline", Algorithm::Patience) | ("module", Algorithm::Patience) => algorithms::patience::diff_deadline(d, old, or, new, nr, deadline),
        ("module_deadline", Algorithm::Lcs) | ("module", Algorithm::Lcs) => algorithms::lcs::diff_deadline(d, old, or, new, nr, deadline),
        _ => algorithms::diff_deadline(c.alg, d, old, or, new, nr, deadline),
    }
}

fn run_stack<L>(c: &HCase, old: &L, new: &L) -> Result<(), i64>
where
    L: Index<usize, Output = Item> + ?Sized,
{
    match c.stack {
        "none" => {
            let mut d = Rec::new(c.fail_at);
            run_alg(c, &mut d, old, new)
        }
        "mutref" => {
            let mut d = Rec::new(c.fail_at);
            let mut r = &mut d;
            run_alg(c, &mut r, old, new)
        }
        "replace_over_compact" => {
            let mut d = Replace::new(Compact::new(Rec::new(c.fail_at), old, new));
            run_alg(c, &mut d, old, new)
        }
        "replace_ref" => {
            // Replace over a hook handed over by reference: replace and finish go through `&mut D`
            let mut r = Rec::new(c.fail_at);
            let mut d = Replace::new(&mut r);
            run_alg(c, &mut d, old, new)
        }
        "nofinish" => {
            let mut d = Rec::new(c.fail_at);
            let mut nf = NoFinishHook::new(&mut d);
            run_alg(c, &mut nf, old, new)
        }
        "replace" => {
            let mut d = Replace::new(Rec::new(c.fail_at));
            run_alg(c, &mut d, old, new)
        }
        "replace_nofinish" => {
            // Replace feeding the finish-suppressing wrapper: it must forward replace as replace
            let mut r = Rec::new(c.fail_at);
            let mut d = Replace::new(NoFinishHook::new(&mut r));
            run_alg(c, &mut d, old, new)
        }
        "replace_nofinish_nr" => {
            let mut r = RecNoReplace(Rec::new(c.fail_at));
            let mut d = Replace::new(NoFinishHook::new(&mut r));
            run_alg(c, &mut d, old, new)
        }
        "replace_nr" => {
            let mut d = Replace::new(RecNoReplace(Rec::new(c.fail_at)));
            run_alg(c, &mut d, old, new)
        }
        "compact" => {
            let mut d = Compact::new(Rec::new(c.fail_at), old, new);
            run_alg(c, &mut d, old, new)
        }
        "compact_replace" => {
            let mut d = Compact::new(Replace::new(Rec::new(c.fail_at)), old, new);
            run_alg(c, &mut d, old, new)
        }
        "compact_replace_nr" => {
            let mut d = Compact::new(Replace::new(RecNoReplace(Rec::new(c.fail_at))), old, new);
            run_alg(c, &mut d, old, new)
        }
        s => panic!("unknown stack {}", s),
    }
}

pub struct HResult {
    pub events: Vec<Value>,
    pub ret: Option<Result<(), i64>>,
    pub cmps: u64,
    pub probes: i64,
    pub xcmps: i64,
}

/// run one case against the real code; never panics
pub fn exec(c: &HCase) -> HResult {
    rec::clear_events();
    rec::reset_cmps();
    if c.fuel >= -1 {
        rec::install_clock(c.fuel, true);
    } else {
        rec::install_hostile_clock(); // no deadline is passed: the clock must be unobservable
    }
    let (bo, bn) = if c.far > 0 { far_bases(c.far, c.old.len(), c.new.len()) } else { (0, 0) };
    rec::set_bases(bo, bn);
    let r = rec::guarded(|| {
        if c.far > 0 {
            let old = rec::FarLookup { data: rec::items(&c.old), base: bo };
            let new = rec::FarLookup { data: rec::items(&c.new), base: bn };
            run_stack(c, &old, &new)
        } else if c.index == "window" {
            let old = Window {
                data: rec::items(&c.old),
                lo: c.os,
                hi: c.oe,
            };
            let new = Window {
                data: rec::items(&c.new),
                lo: c.ns,
                hi: c.ne,
            };
            run_stack(c, &old, &new)
        } else if (c.entry == "slices" || c.entry == "slices_deadline") && c.stack == "none" && c.index == "slice" {
            // the slice-level convenience functions (whole slices only)
            let old = rec::items(&c.old[c.os..c.oe]);
            let new = rec::items(&c.new[c.ns..c.ne]);
            let mut d = Rec::new(c.fail_at);
            if c.entry == "slices" && c.fuel == -2 {
                algorithms::diff_slices(c.alg, &mut d, &old, &new)
            } else {
                let deadline = if c.fuel == -2 { None } else { Some(rec::far_future()) };
                algorithms::diff_slices_deadline(c.alg, &mut d, &old, &new, deadline)
            }
        } else if c.index == "alias" {
            // old and new are the same object (c.old == c.new): two windows of one buffer
            let buf = rec::items(&c.old);
            run_stack::<[Item]>(c, &buf[..], &buf[..])
        } else {
            let old = rec::items(&c.old);
            let new = rec::items(&c.new);
            run_stack::<[Item]>(c, &old[..], &new[..])
        }
    });
    rec::set_bases(0, 0);
    let probes = rec::probes();
    let xcmps = rec::first_expired_cmps();
    rec::remove_clock();
    HResult {
        events: rec::take_events(),
        ret: r,
        cmps: rec::cmps(),
        probes: if c.fuel >= -1 { probes } else { 0 },
        xcmps: if c.fuel >= -1 { xcmps } else { -1 },
    }
}

pub fn start_json(c: &HCase, case: i64) -> Value {
    json!({"ev":"start","case":case,"alg":alg_name(c.alg),"old":seq_json(&c.old),"new":seq_json(&c.new),
           "os":c.os,"oe":c.oe,"ns":c.ns,"ne":c.ne,"index":c.index,"stack":c.stack,
           "fuel":c.fuel,"fail_at":c.fail_at,"entry":c.entry,"far":c.far})
}

/// run and write the trace of one case; returns the result for further use
pub fn run_case(c: &HCase, out: &mut Out) -> HResult {
    let case = out.next_case();
    out.emit(&start_json(c, case));
    out.flush();
    let r = exec(c);
    for e in &r.events {
        out.emit(e);
    }
    match &r.ret {
        None => out.emit(&json!({"ev":"panic","case":case})),
        Some(Ok(())) => out.emit(
            &json!({"ev":"ret","case":case,"ok":true,"err":-1,"cmps":r.cmps,"probes":r.probes,"xcmps":r.xcmps}),
        ),
        Some(Err(k)) => out.emit(
            &json!({"ev":"ret","case":case,"ok":false,"err":k,"cmps":r.cmps,"probes":r.probes,"xcmps":r.xcmps}),
        ),
    }
    r
}

/// hook events only (no probes), with bookkeeping fields removed: the callback stream
pub fn stream(events: &[Value]) -> Vec<Value> {
    events
        .iter()
        .filter(|e| e["ev"] != "probe")
        .map(|e| {
            let mut e = e.clone();
            let o = e.as_object_mut().unwrap();
            o.remove("cmps");
            o.remove("call");
            o.remove("err");
            e
        })
        .collect()
}

/// callback stream as integer tuples [tag,o,ol,n,nl] (tag 0..3, 4 = finish)
pub fn stream_tuples(events: &[Value]) -> Vec<Vec<i64>> {
    let g = |e: &Value, k: &str| e[k].as_i64().unwrap();
    events
        .iter()
        .filter(|e| e["ev"] != "probe")
        .map(|e| match e["ev"].as_str().unwrap() {
            "equal" => vec![0, g(e, "o"), g(e, "len"), g(e, "n"), g(e, "len")],
            "delete" => vec![1, g(e, "o"), g(e, "len"), g(e, "n"), 0],
            "insert" => vec![2, g(e, "o"), 0, g(e, "n"), g(e, "len")],
            "replace" => vec![3, g(e, "o"), g(e, "ol"), g(e, "n"), g(e, "nl")],
            _ => vec![4, 0, 0, 0, 0],
        })
        .collect()
}

// ------------------------------------------------------------------ drivers

fn base_pairs(a: &Args, rng: &mut Rng) -> Vec<Pair> {
    let thorough = a.thorough();
    let mut pairs = if thorough {
        let mut p = gen::exhaustive_pairs(3, 4);
        p.extend(gen::exhaustive_pairs(2, 6));
        p
    } else {
        gen::exhaustive_pairs(3, 3)
    };
    let (nrand, maxlen) = if thorough { (20000, 40) } else { (3000, 24) };
    let nrand = a.num("nrand", nrand) as usize;
    for _ in 0..nrand {
        pairs.push(gen::random_pair(rng, maxlen));
    }
    for _ in 0..nrand / 20 {
        pairs.push(gen::anchor_heavy(rng));
    }
    pairs
}

/// Large, structured inputs (a few hundred to a few thousand items) as hook traces: long vs short
/// unrelated sequences, crossing common blocks separated by junk (moved code), near-identical,
/// small-alphabet random, one side tiny; whole slices and sub-ranges.  The start record carries
/// "big": TRUE so that the trace specification skips oracles that are quadratic in the size
/// beyond fixed limits.
pub fn big_cases(rng: &mut Rng, thorough: bool) -> Vec<(&'static str, Vec<u32>, Vec<u32>)> {
    let mut v: Vec<(&'static str, Vec<u32>, Vec<u32>)> = vec![];
    let rounds = if thorough { 6 } else { 1 };
    for _ in 0..rounds {
        let junk = |_rng: &mut Rng, n: usize, base: u32| -> Vec<u32> { (0..n).map(|i| base + i as u32).collect() };
        // unrelated, long vs short and short vs long
        let n = rng.range(2200, 3000);
        let m = rng.range(200, 400);
        v.push(("long_vs_short", junk(rng, n, 0), junk(rng, m, 100000)));
        v.push(("short_vs_long", junk(rng, m, 0), junk(rng, n, 100000)));
        // random over a small alphabet, long vs short
        let a: Vec<u32> = (0..n).map(|_| rng.below(4) as u32).collect();
        let b: Vec<u32> = (0..m).map(|_| 10 + rng.below(4) as u32).collect();
        v.push(("long_vs_short_small_alpha", a, b));
        // crossing blocks: old = S R JA, new = R JB S   (and the mirror), |S| > |R| >= 20
        let ls = rng.range(200, 320);
        let lr = rng.range(20, 40);
        let lj = rng.range(280, 320);
        let s_: Vec<u32> = junk(rng, ls, 1000);
        let r_: Vec<u32> = junk(rng, lr, 5000);
        let ja: Vec<u32> = junk(rng, lj, 10000);
        let jb: Vec<u32> = junk(rng, lj, 20000);
        let cat = |xs: &[&Vec<u32>]| -> Vec<u32> { xs.iter().flat_map(|x| x.iter().cloned()).collect() };
        v.push(("crossing_blocks", cat(&[&s_, &r_, &ja]), cat(&[&r_, &jb, &s_])));
        v.push(("crossing_blocks_mirror", cat(&[&ja, &r_, &s_]), cat(&[&s_, &jb, &r_])));
        // several common blocks in permuted order between junk
        let blocks: Vec<Vec<u32>> = (0..5)
            .map(|i| {
                let l = rng.range(20, 60);
                junk(rng, l, 30000 + 1000 * i)
            })
            .collect();
        let mut o = vec![];
        let mut nn = vec![];
        for (i, b) in blocks.iter().enumerate() {
            let l = rng.range(40, 90);
            o.extend(junk(rng, l, 40000 + 1000 * i as u32));
            o.extend(b.iter().cloned());
        }
        for i in [2usize, 0, 4, 1, 3] {
            let l = rng.range(40, 90);
            nn.extend(junk(rng, l, 50000 + 1000 * i as u32));
            nn.extend(blocks[i].iter().cloned());
        }
        v.push(("permuted_blocks", o, nn));
        // common prefix and suffix around a large middle part of pairwise distinct items with a few
        // shared blocks (cheap for every algorithm, also for the LCS table: > 10^6 cells)
        for (lo, ln) in [(1100usize, 1000usize), (1500, 1500)] {
            let (l1, l2, l3, l4) = (rng.range(1, 6), rng.range(1, 6), rng.range(3, 30), rng.range(3, 30));
            let pre = junk(rng, l1, 60000);
            let suf = junk(rng, l2, 61000);
            let sh1 = junk(rng, l3, 62000);
            let sh2 = junk(rng, l4, 63000);
            let (o1, o2) = (rng.range(1, lo / 2), rng.range(1, lo / 2));
            let (n1, n2) = (rng.range(1, ln / 2), rng.range(1, ln / 2));
            let o = cat(&[&pre, &junk(rng, o1, 70000), &sh1, &junk(rng, lo - o1 - o2, 72000), &sh2, &junk(rng, o2, 74000), &suf]);
            let nw = cat(&[&pre, &junk(rng, n1, 80000), &sh1, &junk(rng, ln - n1 - n2, 82000), &sh2, &junk(rng, n2, 84000), &suf]);
            v.push(("distinct_big_middle", o, nw));
        }
        // runs of repeated items with a few boundary edits
        for _ in 0..3 {
            let (a, b) = gen::runny_ints(rng);
            v.push(("runny", a, b));
        }
        // near identical, long
        let a: Vec<u32> = (0..n as u32).collect();
        let e = rng.range(1, 6);
        let b = gen::mutate(rng, &a, e, n as u32 + 7);
        v.push(("near_identical", a, b));
        // one side tiny
        let a: Vec<u32> = (0..n as u32).collect();
        v.push(("vs_tiny", a.clone(), vec![n as u32 / 2]));
        v.push(("tiny_vs", vec![n as u32 / 3, 7], a));
    }
    v
}

pub fn drive_big(a: &Args, out: &mut Out) {
    let mut rng = Rng::new(a.num("seed", 1));
    for (fam, x, y) in big_cases(&mut rng, a.thorough()) {
        for alg in ALGS {
            if alg == Algorithm::Lcs && x.len() * y.len() > 200_000 && fam != "distinct_big_middle" {
                continue; // the LCS table is quadratic (it only stores the cells of matching items)
            }
            let c = HCase::simple(alg, &x, &y);
            let case = out.next_case();
            let mut st = start_json(&c, case);
            st["big"] = json!(true);
            st["family"] = json!(fam);
            out.emit(&st);
            out.flush();
            let r = exec(&c);
            for e in &r.events {
                out.emit(e);
            }
            match &r.ret {
                None => out.emit(&json!({"ev":"panic","case":case})),
                Some(Ok(())) => out.emit(&json!({"ev":"ret","case":case,"ok":true,"err":-1,"cmps":r.cmps,"probes":0,"xcmps":-1})),
                Some(Err(k)) => out.emit(&json!({"ev":"ret","case":case,"ok":false,"err":k,"cmps":r.cmps,"probes":0,"xcmps":-1})),
            }
            // a sub-range of padded sequences under the panicking window
            if x.len() + y.len() < 4000 {
                let (po, os, oe, pn, ns, ne) = gen::pad(&mut rng, &x, &y, 3);
                let mut c2 = HCase::simple(alg, &po, &pn);
                c2.os = os;
                c2.oe = oe;
                c2.ns = ns;
                c2.ne = ne;
                c2.index = "window";
                let case = out.next_case();
                let mut st = start_json(&c2, case);
                st["big"] = json!(true);
                st["family"] = json!(fam);
                out.emit(&st);
                out.flush();
                let r = exec(&c2);
                for e in &r.events {
                    out.emit(e);
                }
                match &r.ret {
                    None => out.emit(&json!({"ev":"panic","case":case})),
                    Some(Ok(())) => out.emit(&json!({"ev":"ret","case":case,"ok":true,"err":-1,"cmps":r.cmps,"probes":0,"xcmps":-1})),
                    Some(Err(k)) => out.emit(&json!({"ev":"ret","case":case,"ok":false,"err":k,"cmps":r.cmps,"probes":0,"xcmps":-1})),
                }
            }
        }
    }
}

/// Exhaustive small scope, one representative per relabelling class: every pair (old, new) with
/// both lengths <= maxlen over at most `alpha` symbols such that old ++ new is a restricted-growth
/// string (symbols are introduced in the order 0, 1, 2, ...), for the algorithms named by --algs;
/// whole slices and (up to maxlen - 1) a padded sub-range, no deadline.
pub fn drive_exh(a: &Args, out: &mut Out) {
    let maxlen = a.num("maxlen", if a.thorough() { 7 } else { 6 }) as usize;
    let alpha = a.num("alpha", 3) as u32;
    let algs = a.get("algs", "myers,lcs,patience");
    let others = a.num("others", maxlen.min(6) as u64) as usize; // bound for Patience and LCS
    // all restricted-growth strings of length <= 2 * maxlen, cut at every admissible position
    fn rec_gen(cur: &mut Vec<u32>, maxsym: u32, alpha: u32, maxtotal: usize, f: &mut dyn FnMut(&[u32])) {
        f(cur);
        if cur.len() == maxtotal {
            return;
        }
        for sy in 0..=(maxsym.min(alpha - 1)) {
            cur.push(sy);
            rec_gen(cur, if sy == maxsym { maxsym + 1 } else { maxsym }, alpha, maxtotal, f);
            cur.pop();
        }
    }
    let mut strings: Vec<Vec<u32>> = vec![];
    rec_gen(&mut vec![], 0, alpha, 2 * maxlen, &mut |st| strings.push(st.to_vec()));
    for st in &strings {
        let lo = st.len().saturating_sub(maxlen);
        let hi = st.len().min(maxlen);
        for cut in lo..=hi {
            let (x, y) = (&st[..cut], &st[cut..]);
            for alg in ALGS {
                if !algs.contains(alg_name(alg)) || (alg != Algorithm::Myers && x.len().max(y.len()) > others) {
                    continue;
                }
                let c = HCase::simple(alg, x, y);
                run_case(&c, out);
                // the same pair as a sub-range of padded sequences (different range starts on the
                // two sides) under the lookup that panics outside the range, up to maxlen - 1
                if x.len() < maxlen && y.len() < maxlen {
                    let mut po = vec![7u32];
                    po.extend_from_slice(x);
                    po.push(8);
                    let mut pn = vec![8u32, 7];
                    pn.extend_from_slice(y);
                    pn.push(7);
                    let mut c2 = HCase::simple(alg, &po, &pn);
                    c2.os = 1;
                    c2.oe = 1 + x.len();
                    c2.ns = 2;
                    c2.ne = 2 + y.len();
                    c2.index = "window";
                    c2.entry = "module";
                    run_case(&c2, out);
                }
            }
        }
    }
}

/// C01: no faults, no adapters; whole sequences and sub-ranges; both index kinds;
/// plus the "sub-range = shifted slice diff" comparison record.
pub fn drive_c01(a: &Args, out: &mut Out) {
    let mut rng = Rng::new(a.num("seed", 1));
    let pairs = base_pairs(a, &mut rng);
    for (i, (x, y)) in pairs.iter().enumerate() {
        for alg in ALGS {
            // whole slices, through every public entry point in turn
            let mut c = HCase::simple(alg, x, y);
            c.entry = ["dispatch_deadline", "dispatch", "module", "module_deadline", "slices", "slices_deadline"][i % 6];
            let base = run_case(&c, out);
            // sub-range of padded sequences, alternating index kinds
            let (po, os, oe, pn, ns, ne) = gen::pad(&mut rng, x, y, 2);
            let mut c2 = HCase::simple(alg, &po, &pn);
            c2.os = os;
            c2.oe = oe;
            c2.ns = ns;
            c2.ne = ne;
            c2.index = if i % 2 == 0 { "window" } else { "slice" };
            c2.entry = ["module", "dispatch_deadline", "dispatch", "module_deadline"][(i / 2) % 4];
            let sub = run_case(&c2, out);
            // far-away index windows (positions near usize::MAX, around isize::MAX, sums reaching
            // 2^64): whole windows and sub-ranges, every stack in turn
            if i % 4 == 1 {
                let mut c4 = HCase::simple(alg, x, y);
                c4.index = "far";
                c4.far = 1 + (i / 4) % 7;
                c4.stack = STACKS[(i / 4) % STACKS.len()];
                if i % 8 == 5 && x.len() >= 2 && y.len() >= 2 {
                    c4.os = 1;
                    c4.ns = 1;
                    c4.oe = x.len() - 1 + (i / 8) % 2;
                    c4.ne = y.len() - (i / 8) % 2;
                }
                c4.entry = ["dispatch_deadline", "module", "dispatch"][(i / 4) % 3];
                run_case(&c4, out);
            }
            // both sides are windows of ONE buffer (the same object passed twice): x ++ y with
            // the two halves as ranges, or two arbitrary (overlapping, equally long) windows
            if i % 3 == 0 {
                let mut buf = x.clone();
                buf.extend(y.iter().cloned());
                let mut c3 = HCase::simple(alg, &buf, &buf);
                c3.index = "alias";
                if i % 2 == 0 {
                    c3.oe = x.len();
                    c3.ns = x.len();
                } else if !buf.is_empty() {
                    let l = rng.below(buf.len() + 1);
                    c3.os = rng.below(buf.len() - l + 1);
                    c3.oe = c3.os + l;
                    c3.ns = rng.below(buf.len() - l + 1);
                    c3.ne = c3.ns + l;
                }
                run_case(&c3, out);
            }
            // shifted comparison
            let case = out.next_case();
            out.emit(&json!({"ev":"shiftcmp","case":case,"alg":alg_name(alg),
                "old":seq_json(&po),"new":seq_json(&pn),"os":os,"oe":oe,"ns":ns,"ne":ne,"index":c2.index,
                "whole":stream_tuples(&base.events),"sub":stream_tuples(&sub.events),
                "whole_ok":matches!(base.ret, Some(Ok(()))),"sub_ok":matches!(sub.ret, Some(Ok(())))}));
        }
    }
}
