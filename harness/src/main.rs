//! `sv` – conformance harness binding the TLA+ specifications in /verif/spec to
//! the real `similar` crate (path dependency on /repo, built with
//! `--cfg similar_verif`).
//!
//!   sv drive <family> --out <file.ndjson> [--tier quick|thorough] [--seed N]
//!   sv replay <family> --in <behaviours.ndjson> --out <file.ndjson>
mod ci;
mod fam_a;
mod fam_builder;
mod fam_f;
mod fam_faults;
mod fam_h;
mod fam_o;
mod fam_text;
mod fam_text2;
mod fam_text3;
mod textgen;
mod fam_work;
mod gen;
mod rec;
mod replay;
mod rerun;
mod util;

use util::{Args, Out};

fn main() {
    let argv: Vec<String> = std::env::args().skip(1).collect();
    let a = Args::parse(&argv);
    // panics of the code under test are data, not noise
    if a.get("loud", "0") != "1" {
        std::panic::set_hook(Box::new(|_| {}));
    }
    if a.pos.len() < 2 {
        eprintln!("usage: sv drive|replay <family> --out FILE [--in FILE] [--tier T] [--seed N]");
        std::process::exit(2);
    }
    let mut out = Out::create(&a.get("out", "/dev/stdout"));
    match (a.pos[0].as_str(), a.pos[1].as_str()) {
        ("drive", "c01") => fam_h::drive_c01(&a, &mut out),
        ("drive", "ops") => fam_o::drive_ops(&a, &mut out),
        ("drive", "c07") => fam_faults::drive_c07(&a, &mut out),
        ("drive", "c08") => fam_faults::drive_c08(&a, &mut out),
        ("drive", "c10") => fam_a::drive_c10(&a, &mut out),
        ("drive", "c19") => fam_work::drive_c19(&a, &mut out),
        ("drive", "c12") => fam_f::drive_c12(&a, &mut out),
        ("drive", "c13") => fam_f::drive_c13(&a, &mut out),
        ("drive", "c06") => fam_text::drive_c06(&a, &mut out),
        ("drive", "c04") => fam_text::drive_c04(&a, &mut out),
        ("drive", "c14") => fam_text2::drive_c14(&a, &mut out),
        ("drive", "c17") => fam_text2::drive_c17(&a, &mut out),
        ("drive", "c20") => fam_text2::drive_c20(&a, &mut out),
        ("drive", "c18") => fam_text3::drive_c18(&a, &mut out),
        ("drive", "c16") => fam_text3::drive_c16(&a, &mut out),
        ("drive", "c05") => fam_text3::drive_c05(&a, &mut out),
        ("replay", "alg") => replay::replay_alg(&a, &mut out),
        ("replay", "inline") => replay::replay_inline(&a, &mut out),
        ("replay", "fn") => replay::replay_fn(&a, &mut out),
        ("replay", "group") => replay::replay_group(&a, &mut out),
        ("replay", "compact") => replay::replay_compact(&a, &mut out),
        ("drive", "steps") => fam_a::drive_steps(&a, &mut out),
        ("rerun", _) => rerun::rerun(&a, &mut out),
        ("drive", "builder") => fam_builder::drive_builder(&a, &mut out),
        ("drive", "big") => fam_h::drive_big(&a, &mut out),
        ("drive", "exh") => fam_h::drive_exh(&a, &mut out),
        ("drive", "c10ops") => fam_a::drive_c10ops(&a, &mut out),
        (m, f) => {
            eprintln!("unknown mode/family {} {}", m, f);
            std::process::exit(2);
        }
    }
    out.flush();
    eprintln!("sv: {} lines, {} cases", out.lines, out.case);
}
