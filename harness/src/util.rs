//! Small utilities: deterministic RNG, ndjson writer, argument parsing.
use serde_json::Value;
use std::io::Write;

/// splitmix64 – deterministic, seedable, no external crate.
#[derive(Clone)]
pub struct Rng(pub u64);

impl Rng {
    pub fn new(seed: u64) -> Rng {
        Rng(seed.wrapping_mul(0x9E3779B97F4A7C15).wrapping_add(0x1234_5678_9abc_def1))
    }
    pub fn next(&mut self) -> u64 {
        self.0 = self.0.wrapping_add(0x9E3779B97F4A7C15);
        let mut z = self.0;
        z = (z ^ (z >> 30)).wrapping_mul(0xBF58476D1CE4E5B9);
        z = (z ^ (z >> 27)).wrapping_mul(0x94D049BB133111EB);
        z ^ (z >> 31)
    }
    /// uniform in 0..n (n > 0)
    pub fn below(&mut self, n: usize) -> usize {
        (self.next() % (n as u64)) as usize
    }
    /// uniform in lo..=hi
    pub fn range(&mut self, lo: usize, hi: usize) -> usize {
        lo + self.below(hi - lo + 1)
    }
    pub fn chance(&mut self, num: usize, den: usize) -> bool {
        self.below(den) < num
    }
    pub fn pick<'a, T>(&mut self, xs: &'a [T]) -> &'a T {
        &xs[self.below(xs.len())]
    }
}

pub struct Out {
    w: std::io::BufWriter<std::fs::File>,
    pub lines: usize,
    pub case: i64,
}

impl Out {
    pub fn create(path: &str) -> Out {
        let f = std::fs::File::create(path).unwrap_or_else(|e| {
            eprintln!("cannot create {}: {}", path, e);
            std::process::exit(2)
        });
        Out {
            w: std::io::BufWriter::with_capacity(1 << 20, f),
            lines: 0,
            case: 0,
        }
    }
    pub fn emit(&mut self, v: &Value) {
        serde_json::to_writer(&mut self.w, v).unwrap();
        self.w.write_all(b"\n").unwrap();
        self.lines += 1;
    }
    /// allocate the next case id
    pub fn next_case(&mut self) -> i64 {
        self.case += 1;
        self.case
    }
    pub fn flush(&mut self) {
        self.w.flush().unwrap();
    }
}

impl Drop for Out {
    fn drop(&mut self) {
        let _ = self.w.flush();
    }
}

#[derive(Clone, Debug)]
pub struct Args {
    pub pos: Vec<String>,
    pub kv: std::collections::HashMap<String, String>,
}

impl Args {
    pub fn parse(argv: &[String]) -> Args {
        let mut pos = vec![];
        let mut kv = std::collections::HashMap::new();
        let mut i = 0;
        while i < argv.len() {
            if let Some(k) = argv[i].strip_prefix("--") {
                if i + 1 < argv.len() && !argv[i + 1].starts_with("--") {
                    kv.insert(k.to_string(), argv[i + 1].clone());
                    i += 2;
                } else {
                    kv.insert(k.to_string(), "1".to_string());
                    i += 1;
                }
            } else {
                pos.push(argv[i].clone());
                i += 1;
            }
        }
        Args { pos, kv }
    }
    pub fn get(&self, k: &str, default: &str) -> String {
        self.kv.get(k).cloned().unwrap_or_else(|| default.to_string())
    }
    pub fn num(&self, k: &str, default: u64) -> u64 {
        self.kv
            .get(k)
            .map(|x| x.parse().expect("numeric argument"))
            .unwrap_or(default)
    }
    pub fn thorough(&self) -> bool {
        self.get("tier", "quick") == "thorough"
    }
}

/// all sequences over 0..alpha of length 0..=maxlen
pub fn all_seqs(alpha: u32, maxlen: usize) -> Vec<Vec<u32>> {
    let mut out = vec![vec![]];
    let mut frontier: Vec<Vec<u32>> = vec![vec![]];
    for _ in 0..maxlen {
        let mut next = vec![];
        for s in &frontier {
            for a in 0..alpha {
                let mut t = s.clone();
                t.push(a);
                next.push(t);
            }
        }
        out.extend(next.iter().cloned());
        frontier = next;
    }
    out
}

pub fn bytes_json(b: &[u8]) -> Value {
    Value::Array(b.iter().map(|x| Value::from(*x as u64)).collect())
}

pub fn seq_json(b: &[u32]) -> Value {
    Value::Array(b.iter().map(|x| Value::from(*x as u64)).collect())
}
