//! Text families: tokenizers (C06), text diffs (C04, C14), remapping (C17), determinism (C20).
use crate::fam_h::{alg_name, ALGS};
use crate::rec;
use crate::textgen;
use crate::util::{bytes_json, Args, Out, Rng};
use serde_json::{json, Value};
use similar::{Algorithm, ChangeTag, DiffableStr, TextDiff};

pub const KINDS: [&str; 6] = ["lines", "lines_nl", "words", "chars", "uwords", "graphemes"];

pub fn has_unicode() -> bool {
    cfg!(feature = "unicode")
}

pub fn tokenize<'a, T: DiffableStr + ?Sized>(s: &'a T, kind: &str) -> Option<Vec<&'a T>> {
    Some(match kind {
        "lines" => s.tokenize_lines(),
        "lines_nl" => s.tokenize_lines_and_newlines(),
        "words" => s.tokenize_words(),
        "chars" => s.tokenize_chars(),
        #[cfg(feature = "unicode")]
        "uwords" => s.tokenize_unicode_words(),
        #[cfg(feature = "unicode")]
        "graphemes" => s.tokenize_graphemes(),
        _ => return None,
    })
}

fn toks_json<T: DiffableStr + ?Sized>(t: &[&T]) -> Value {
    Value::Array(t.iter().map(|x| bytes_json(x.as_bytes())).collect())
}

/// unit segmentation of a byte string by std (scalar values / maximal invalid subparts)
pub fn units(b: &[u8]) -> (Vec<Vec<u8>>, Vec<bool>) {
    let mut us = vec![];
    let mut valid = vec![];
    for chunk in b.utf8_chunks() {
        for c in chunk.valid().chars() {
            let mut buf = [0u8; 4];
            us.push(c.encode_utf8(&mut buf).as_bytes().to_vec());
            valid.push(true);
        }
        if !chunk.invalid().is_empty() {
            us.push(chunk.invalid().to_vec());
            valid.push(false);
        }
    }
    (us, valid)
}

fn token_record(case: i64, kind: &str, mode: &str, input: &[u8], toks: Option<Value>) -> Value {
    let (us, valid) = units(input);
    // beyond the listed properties: the small accessors of DiffableStr on the same input
    // [is_empty, len, ends_with_newline, as_str is Some, to_string_lossy == input (UTF-8 input)]
    let acc = rec::guarded(|| {
        if mode == "str" {
            let s = std::str::from_utf8(input).unwrap();
            json!([DiffableStr::is_empty(s), DiffableStr::len(s), DiffableStr::ends_with_newline(s), DiffableStr::as_str(s).is_some(),
                   DiffableStr::to_string_lossy(s).as_bytes() == input, DiffableStr::as_bytes(s) == input])
        } else {
            json!([DiffableStr::is_empty(input), DiffableStr::len(input), DiffableStr::ends_with_newline(input),
                   DiffableStr::as_str(input).is_some(), DiffableStr::to_string_lossy(input).as_bytes() == input,
                   DiffableStr::as_bytes(input) == input])
        }
    });
    json!({"ev":"tokens","case":case,"kind":kind,"mode":mode,"input":bytes_json(input),
        "panic":toks.is_none(),"tokens":toks.unwrap_or(json!([])),
        "units":Value::Array(us.iter().map(|u| bytes_json(u)).collect()),"valid":valid,
        "acc":acc.unwrap_or(json!([]))})
}

pub fn emit_tokens(input: &[u8], out: &mut Out) {
    let as_str = std::str::from_utf8(input).ok();
    for kind in KINDS {
        if !has_unicode() && (kind == "uwords" || kind == "graphemes") {
            continue;
        }
        let tb = rec::guarded(|| tokenize::<[u8]>(input, kind).map(|t| toks_json(&t))).flatten();
        let case = out.next_case();
        out.emit(&token_record(case, kind, "bytes", input, tb.clone()));
        if let Some(s) = as_str {
            let ts = rec::guarded(|| tokenize::<str>(s, kind).map(|t| toks_json(&t))).flatten();
            let case = out.next_case();
            out.emit(&token_record(case, kind, "str", input, ts.clone()));
            if kind != "uwords" && kind != "graphemes" {
                let case = out.next_case();
                out.emit(&json!({"ev":"same","case":case,"clause":"str_bytes_same","kind":kind,
                    "input":bytes_json(input),"a":ts.unwrap_or(json!([[-1]])),"b":tb.unwrap_or(json!([[-1]]))}));
            }
        }
    }
}

pub fn drive_c06(a: &Args, out: &mut Out) {
    let mut rng = Rng::new(a.num("seed", 1));
    let thorough = a.thorough();
    let (nsym, maxlen) = if thorough { (14, 4) } else { (10, 3) };
    for s in textgen::exhaustive_strs(nsym, maxlen) {
        emit_tokens(s.as_bytes(), out);
    }
    let nrand = if thorough { 20000 } else { 1500 };
    for i in 0..nrand {
        if i % 2 == 0 {
            let s = textgen::random_str(&mut rng, if thorough { 40 } else { 16 });
            emit_tokens(s.as_bytes(), out);
        } else {
            let b = textgen::random_bytes(&mut rng, if thorough { 30 } else { 12 });
            emit_tokens(&b, out);
        }
    }
    // long inputs: an interesting sequence placed at every offset around power-of-two block
    // boundaries (scanners that work block-wise or look ahead must not depend on the position)
    let seqs: [&str; 7] = ["\r\n", "\r", "\n", " \u{a0} ", "\u{e9}", "\r\n\r\n", "\r\r\n"];
    let blocks: &[usize] = if thorough { &[16, 32, 64, 128, 256, 512, 1024, 2048, 4096] } else { &[64, 256, 1024, 4096] };
    for &b in blocks {
        for mult in 1..=(if b <= 256 { 3 } else { 1 }) {
            for d in 0..5usize {
                let k = (b * mult + d).saturating_sub(3);
                let sq = seqs[(b + mult + d) % seqs.len()];
                let mut t = String::new();
                for i in 0..k {
                    t.push(if i % 17 == 16 { ' ' } else { 'x' });
                }
                t.push_str(sq);
                t.push_str("yz ");
                t.push_str(sq);
                emit_tokens(t.as_bytes(), out);
            }
        }
    }
    // late features: a long plain head (no CR, no blank other than ' ', ASCII only) followed by a
    // short tail with everything interesting - and the mirror image (scanners that sniff the
    // head of the input, or switch strategy by size, must not depend on it)
    let heads: &[usize] = if thorough { &[4096, 5000, 8000, 8192, 10000, 16384, 20000, 32768] } else { &[8000, 8192, 10000, 16384, 20000] };
    for &l in heads {
        let mut head = String::new();
        for i in 0..l {
            head.push(if i % 61 == 60 { '\n' } else if i % 7 == 6 { ' ' } else { 'x' });
        }
        for v in 0..2 {
            let tail: Vec<u8> = if v == 0 {
                let mut t = textgen::random_str(&mut rng, 12);
                t.push_str("a\rb\rc\r\nd\u{2028}e\u{85}f\n");
                t.into_bytes()
            } else {
                let mut t = textgen::random_bytes(&mut rng, 12);
                t.extend_from_slice(b"a\rb\xff\rc\n");
                t
            };
            let mut t1 = head.clone().into_bytes();
            t1.extend_from_slice(&tail);
            emit_tokens(&t1, out);
            let mut t2 = tail.clone();
            t2.extend_from_slice(head.as_bytes());
            emit_tokens(&t2, out);
        }
    }
    // every invalid symbol between every pair of a few valid ones
    for inv in textgen::invalid_symbols() {
        for l in ["", "a", "\n", "\r", " ", "\u{e9}"] {
            for r in ["", "b", "\n", " ", "\u{301}"] {
                let mut b = l.as_bytes().to_vec();
                b.extend_from_slice(inv);
                b.extend_from_slice(r.as_bytes());
                emit_tokens(&b, out);
            }
        }
    }
}

// ------------------------------------------------------------------ C04

fn tagnum(t: ChangeTag) -> i64 {
    match t {
        ChangeTag::Equal => 0,
        ChangeTag::Delete => 1,
        ChangeTag::Insert => 2,
    }
}

pub fn make_diff<'a, T: DiffableStr + ?Sized>(
    alg: Algorithm,
    kind: &str,
    old: &'a T,
    new: &'a T,
) -> Option<TextDiff<'a, 'a, 'a, T>> {
    let mut cfg = TextDiff::configure();
    cfg.algorithm(alg);
    // no deadline is configured: a clock that answers "exceeded" to every check must be unobservable
    struct Unclock;
    impl Drop for Unclock {
        fn drop(&mut self) {
            rec::remove_clock();
        }
    }
    rec::install_hostile_clock();
    let _unclock = Unclock;
    Some(match kind {
        "lines" => cfg.diff_lines(old, new),
        "words" => cfg.diff_words(old, new),
        "chars" => cfg.diff_chars(old, new),
        #[cfg(feature = "unicode")]
        "uwords" => cfg.diff_unicode_words(old, new),
        #[cfg(feature = "unicode")]
        "graphemes" => cfg.diff_graphemes(old, new),
        _ => return None,
    })
}

pub const DIFF_KINDS: [&str; 5] = ["lines", "words", "chars", "uwords", "graphemes"];

fn changes_record<T: DiffableStr + ?Sized>(
    case: i64,
    alg: Algorithm,
    kind: &str,
    mode: &str,
    old: &T,
    new: &T,
) -> Value {
    let r = rec::guarded(|| {
        let diff = make_diff(alg, kind, old, new)?;
        let cj = |c: &similar::Change<&T>| {
            json!([tagnum(c.tag()), c.old_index().map(|x| x as i64).unwrap_or(-1),
                   c.new_index().map(|x| x as i64).unwrap_or(-1), bytes_json(c.value().as_bytes())])
        };
        let all: Vec<Value> = diff.iter_all_changes().map(|c| cj(&c)).collect();
        let per: Vec<Value> = diff
            .ops()
            .iter()
            .flat_map(|op| diff.iter_changes(op).map(|c| cj(&c)).collect::<Vec<_>>())
            .collect();
        // beyond the listed properties: what a change shows (Display, to_string_lossy, the
        // missing-newline flag, the tag character) for every change
        let shown: Vec<Value> = diff
            .iter_all_changes()
            .map(|c| {
                json!([bytes_json(c.to_string().as_bytes()), bytes_json(c.to_string_lossy().as_bytes()), c.missing_newline(),
                       bytes_json(c.tag().to_string().as_bytes())])
            })
            .collect();
        Some((all, per, diff.old_slices().len(), diff.new_slices().len(), shown))
    });
    match r {
        Some(Some((all, per, no, nn, shown))) => json!({"ev":"textchanges","case":case,"alg":alg_name(alg),"kind":kind,"mode":mode,
            "old":bytes_json(old.as_bytes()),"new":bytes_json(new.as_bytes()),"panic":false,
            "all":all,"per_op":per,"ntok_old":no,"ntok_new":nn,"shown":shown,
            "utf8": std::str::from_utf8(old.as_bytes()).is_ok() && std::str::from_utf8(new.as_bytes()).is_ok()}),
        _ => json!({"ev":"textchanges","case":case,"alg":alg_name(alg),"kind":kind,"mode":mode,
            "old":bytes_json(old.as_bytes()),"new":bytes_json(new.as_bytes()),"panic":true,
            "all":[],"per_op":[],"ntok_old":0,"ntok_new":0}),
    }
}

pub fn text_pairs(rng: &mut Rng, thorough: bool, with_invalid: bool) -> Vec<(Vec<u8>, Vec<u8>)> {
    let mut v = vec![];
    let strs = textgen::exhaustive_strs(if thorough { 8 } else { 6 }, 2);
    for a in &strs {
        for b in &strs {
            v.push((a.as_bytes().to_vec(), b.as_bytes().to_vec()));
        }
    }
    let nrand = if thorough { 6000 } else { 500 };
    for i in 0..nrand {
        let a = if with_invalid && i % 3 == 0 {
            textgen::random_bytes(rng, 14)
        } else {
            textgen::random_str(rng, 14).into_bytes()
        };
        // b: a mutated copy (shares tokens with a) or independent
        let b = if i % 4 == 3 {
            textgen::random_str(rng, 14).into_bytes()
        } else {
            let mut b = a.clone();
            for _ in 0..rng.range(0, 3) {
                let ins: Vec<u8> = if with_invalid && rng.chance(1, 4) {
                    textgen::invalid_symbols()[rng.below(7)].to_vec()
                } else {
                    (*rng.pick(&textgen::str_symbols())).as_bytes().to_vec()
                };
                // insert / delete at a unit boundary
                let (us, _) = units(&b);
                let p = rng.below(us.len() + 1);
                let off: usize = us[..p].iter().map(|u| u.len()).sum();
                if rng.chance(1, 3) && p < us.len() {
                    b.drain(off..off + us[p].len());
                } else {
                    for (k, x) in ins.iter().enumerate() {
                        b.insert(off + k, *x);
                    }
                }
            }
            b
        };
        // a byte order mark, blank or line break in front of one side only / of both sides
        let (mut a, mut b) = (a, b);
        if i % 8 == 5 {
            let pre = *rng.pick(&["\u{feff}", "\u{feff}", "\n", " ", "\r", "\u{2028}"]);
            let which = rng.below(3);
            if which != 1 {
                a.splice(0..0, pre.bytes());
            }
            if which != 0 {
                b.splice(0..0, pre.bytes());
            }
        }
        v.push((a, b));
    }
    // line texts
    for _ in 0..nrand / 2 {
        let n = rng.below(7);
        let a = textgen::random_lines(rng, n, 5);
        let e = rng.range(0, 3);
        let b = textgen::mutate_lines(rng, &a, e, 5);
        v.push((a.into_bytes(), b.into_bytes()));
    }
    // more than 100 tokens (TextDiff's interning branch), runs of repeated tokens, few edits
    for _ in 0..(if thorough { 600 } else { 60 }) {
        let (a, b) = textgen::runny_pair(rng);
        v.push((a.into_bytes(), b.into_bytes()));
    }
    if with_invalid {
        for _ in 0..(if thorough { 200 } else { 20 }) {
            v.push(textgen::runny_bytes_pair(rng));
        }
    }
    v
}

/// token-level reconstruction for inputs too large to log byte by byte: tokens are numbered by
/// the harness's own dictionary (text -> number), so equal numbers mean equal token texts
fn big_changes_record(case: i64, alg: Algorithm, old: &str, new: &str) -> Value {
    let r = rec::guarded(|| {
        let diff = make_diff(alg, "lines", old, new)?;
        let mut dict: std::collections::HashMap<&str, u64> = Default::default();
        let mut id = |t: &str, dict: &mut std::collections::HashMap<&str, u64>| -> u64 {
            let n = dict.len() as u64;
            // the lifetime of t is that of old/new
            *dict.entry(unsafe { std::mem::transmute::<&str, &'static str>(t) }).or_insert(n)
        };
        let ot: Vec<u64> = diff.old_slices().iter().map(|t| id(t, &mut dict)).collect();
        let nt: Vec<u64> = diff.new_slices().iter().map(|t| id(t, &mut dict)).collect();
        let all: Vec<Value> = diff
            .iter_all_changes()
            .map(|c| {
                json!([tagnum(c.tag()), c.old_index().map(|x| x as i64).unwrap_or(-1),
                       c.new_index().map(|x| x as i64).unwrap_or(-1), id(c.value(), &mut dict)])
            })
            .collect();
        Some((ot, nt, all))
    });
    match r {
        Some(Some((ot, nt, all))) => json!({"ev":"textchanges_tok","case":case,"alg":alg_name(alg),"panic":false,
            "old_tok":ot,"new_tok":nt,"all":all}),
        _ => json!({"ev":"textchanges_tok","case":case,"alg":alg_name(alg),"panic":true,"old_tok":[],"new_tok":[],"all":[]}),
    }
}

pub fn drive_c04(a: &Args, out: &mut Out) {
    let mut rng = Rng::new(a.num("seed", 1));
    // inputs with more distinct tokens than a narrow integer can number
    for &distinct in &[256usize, 65536, 0] {
        let mut x = String::new();
        for k in 0..distinct {
            x.push_str(&format!("l{}\n", k));
        }
        let mut y = format!("{}l0\n", x);
        x.push_str("A\n");
        if distinct == 0 {
            // both sides below 65 536 tokens, together more than 65 536 distinct ones:
            // 1 500 rewritten head lines in front of 63 000 common lines
            let tail: String = (0..63_000).map(|k| format!("t{}\n", k)).collect();
            x = (0..1500).map(|k| format!("a{}\n", k)).collect::<String>() + &tail;
            y = (0..1500).map(|k| format!("b{}\n", k)).collect::<String>() + &tail;
        }
        for alg in [Algorithm::Myers, Algorithm::Patience] {
            let case = out.next_case();
            out.emit(&big_changes_record(case, alg, &x, &y));
        }
    }
    // more than 100 tokens per side (the integer-mapping path), few edits over small alphabets
    let nlong = if a.thorough() { 600 } else { 90 };
    for i in 0..nlong {
        let kind = ["lines", "words", "chars"][i % 3];
        let ntok = rng.range(101, 170);
        let alpha = *rng.pick(&[2usize, 3, 5, 30]);
        let x = crate::fam_text2::long_text(&mut rng, ntok, alpha, kind);
        let e = if i % 2 == 0 { 1 } else { rng.range(1, 5) };
        let y = crate::fam_text2::mutate_text(&mut rng, &x, kind, e, alpha);
        let alg = ALGS[i % 3];
        let case = out.next_case();
        out.emit(&changes_record::<str>(case, alg, kind, "str", &x, &y));
        let case = out.next_case();
        out.emit(&changes_record::<[u8]>(case, ALGS[(i + 1) % 3], kind, "bytes", y.as_bytes(), x.as_bytes()));
    }
    let pairs = text_pairs(&mut rng, a.thorough(), true);
    for (i, (x, y)) in pairs.iter().enumerate() {
        for (ki, kind) in DIFF_KINDS.iter().enumerate() {
            if !has_unicode() && (*kind == "uwords" || *kind == "graphemes") {
                continue;
            }
            // rotate algorithms over the cases so that all (kind, alg) pairs occur
            let alg = ALGS[(i + ki) % 3];
            let case = out.next_case();
            out.emit(&changes_record::<[u8]>(case, alg, kind, "bytes", x, y));
            if let (Ok(xs), Ok(ys)) = (std::str::from_utf8(x), std::str::from_utf8(y)) {
                let case = out.next_case();
                out.emit(&changes_record::<str>(case, alg, kind, "str", xs, ys));
            }
        }
    }
}
