//! Input generators shared by all families.
use crate::util::{all_seqs, Rng};

pub type Pair = (Vec<u32>, Vec<u32>);

/// every pair of sequences of length <= maxlen over `alpha` letters
pub fn exhaustive_pairs(alpha: u32, maxlen: usize) -> Vec<Pair> {
    let s = all_seqs(alpha, maxlen);
    let mut out = Vec::with_capacity(s.len() * s.len());
    for a in &s {
        for b in &s {
            out.push((a.clone(), b.clone()));
        }
    }
    out
}

fn rand_seq(rng: &mut Rng, len: usize, alpha: u32) -> Vec<u32> {
    (0..len).map(|_| rng.below(alpha as usize) as u32).collect()
}

/// mutate `a` with `edits` random edits (insert / delete / substitute / block move / block dup)
pub fn mutate(rng: &mut Rng, a: &[u32], edits: usize, alpha: u32) -> Vec<u32> {
    let mut b = a.to_vec();
    for _ in 0..edits {
        match rng.below(6) {
            0 => {
                let p = rng.below(b.len() + 1);
                b.insert(p, rng.below(alpha as usize) as u32);
            }
            1 if !b.is_empty() => {
                let p = rng.below(b.len());
                b.remove(p);
            }
            2 if !b.is_empty() => {
                let p = rng.below(b.len());
                b[p] = rng.below(alpha as usize) as u32;
            }
            3 if b.len() >= 2 => {
                // block move
                let s = rng.below(b.len());
                let l = rng.range(1, (b.len() - s).min(8));
                let blk: Vec<u32> = b.drain(s..s + l).collect();
                let p = rng.below(b.len() + 1);
                for (i, x) in blk.into_iter().enumerate() {
                    b.insert(p + i, x);
                }
            }
            4 if !b.is_empty() => {
                // block duplicate
                let s = rng.below(b.len());
                let l = rng.range(1, (b.len() - s).min(6));
                let blk: Vec<u32> = b[s..s + l].to_vec();
                let p = rng.below(b.len() + 1);
                for (i, x) in blk.into_iter().enumerate() {
                    b.insert(p + i, x);
                }
            }
            _ => {
                let p = rng.below(b.len() + 1);
                b.insert(p, rng.below(alpha as usize) as u32);
            }
        }
    }
    b
}

/// one random pair from a mix of shapes; lengths up to `maxlen`
pub fn random_pair(rng: &mut Rng, maxlen: usize) -> Pair {
    let shape = rng.below(10);
    let n = rng.below(maxlen + 1);
    match shape {
        // small alphabets: repeats force slides and swaps
        0 | 1 => {
            let alpha = rng.range(1, 3) as u32;
            let m = rng.below(maxlen + 1);
            (rand_seq(rng, n, alpha), rand_seq(rng, m, alpha))
        }
        // near identical
        2 | 3 | 4 => {
            let alpha = *rng.pick(&[2u32, 3, 5, 50]);
            let a = rand_seq(rng, n, alpha);
            let e = rng.range(0, 4);
            let b = mutate(rng, &a, e, alpha);
            if rng.chance(1, 2) {
                (a, b)
            } else {
                (b, a)
            }
        }
        // mostly unique items with few edits (patience friendly)
        5 => {
            let a: Vec<u32> = (0..n as u32).collect();
            let e = rng.range(0, 5);
            let b = mutate(rng, &a, e, n as u32 + 3);
            (a, b)
        }
        // periodic
        6 => {
            let p = rng.range(1, 4);
            let a: Vec<u32> = (0..n).map(|i| (i % p) as u32).collect();
            let m = rng.below(maxlen + 1);
            let q = rng.range(1, 4);
            let off = rng.below(3);
            let b: Vec<u32> = (0..m).map(|i| ((i + off) % q) as u32).collect();
            (a, b)
        }
        // unrelated
        7 => {
            let m = rng.below(maxlen + 1);
            let a: Vec<u32> = (0..n as u32).collect();
            let b: Vec<u32> = (0..m as u32).map(|x| x + 1000).collect();
            (a, b)
        }
        // permuted unique items
        8 => {
            let a: Vec<u32> = (0..n as u32).collect();
            let mut b = a.clone();
            for i in (1..b.len()).rev() {
                let j = rng.below(i + 1);
                b.swap(i, j);
            }
            let e = rng.range(0, 2);
            let b = mutate(rng, &b, e, 4);
            (a, b)
        }
        // medium alphabet random
        _ => {
            let alpha = rng.range(3, 8) as u32;
            let m = rng.below(maxlen + 1);
            (rand_seq(rng, n, alpha), rand_seq(rng, m, alpha))
        }
    }
}

/// Embed a pair in padded sequences; returns (old_padded, os, oe, new_padded, ns, ne).
/// Padding items are taken from the *other* side's items where possible so that an
/// out-of-range comparison is likely to succeed (and so to change the result).
pub fn pad(
    rng: &mut Rng,
    a: &[u32],
    b: &[u32],
    maxpad: usize,
) -> (Vec<u32>, usize, usize, Vec<u32>, usize, usize) {
    let padv = |rng: &mut Rng, other: &[u32], own: &[u32]| -> u32 {
        if !other.is_empty() && rng.chance(2, 3) {
            *rng.pick(other)
        } else if !own.is_empty() {
            *rng.pick(own)
        } else {
            rng.below(3) as u32
        }
    };
    let la = rng.below(maxpad + 1);
    let ra = rng.below(maxpad + 1);
    let lb = rng.below(maxpad + 1);
    let rb = rng.below(maxpad + 1);
    let mut oa = vec![];
    for _ in 0..la {
        oa.push(padv(rng, b, a));
    }
    oa.extend_from_slice(a);
    for _ in 0..ra {
        oa.push(padv(rng, b, a));
    }
    let mut ob = vec![];
    for _ in 0..lb {
        ob.push(padv(rng, a, b));
    }
    ob.extend_from_slice(b);
    for _ in 0..rb {
        ob.push(padv(rng, a, b));
    }
    (oa, la, la + a.len(), ob, lb, lb + b.len())
}

/// Long "runny" integer pairs: 100-400 items made of runs of repeated values over a tiny
/// alphabet, the second sequence derived from the first by a few single-item edits that prefer
/// run boundaries (the shapes on which clean-up slides and merges a lot).
pub fn runny_ints(rng: &mut Rng) -> Pair {
    let k = rng.range(2, 4) as u32;
    let lens = [1usize, 1, 1, 2, 3, 5, 17, 18, 24, 40];
    let target = rng.range(100, 400);
    let mut a: Vec<u32> = vec![];
    let mut bounds: Vec<usize> = vec![0];
    let mut last = u32::MAX;
    while a.len() < target {
        let mut sy = rng.below(k as usize) as u32;
        if sy == last {
            sy = (sy + 1) % k;
        }
        last = sy;
        for _ in 0..lens[rng.below(lens.len())] {
            a.push(sy);
        }
        bounds.push(a.len());
    }
    let mut b = a.clone();
    for _ in 0..rng.range(1, 5) {
        if b.is_empty() {
            break;
        }
        let p = if rng.chance(2, 3) { (*rng.pick(&bounds)).min(b.len()) } else { rng.below(b.len() + 1) };
        match rng.below(4) {
            0 if p < b.len() => {
                b.remove(p);
            }
            1 if p < b.len() => {
                let v = b[p];
                b.insert(p, v);
            }
            2 if p > 0 => {
                b.remove(p - 1);
            }
            _ => b.insert(p, rng.below(k as usize + 1) as u32),
        }
    }
    if rng.chance(1, 2) {
        (a, b)
    } else {
        (b, a)
    }
}

/// Many small hunks: `blocks` blocks, each a unique separator followed by a short stretch over
/// {0, 1} that differs between the two sides by one or two repetitions (hundreds to thousands of
/// raw ops in one diff, most hunks slidable).
pub fn many_hunks(rng: &mut Rng, blocks: usize) -> Pair {
    let (mut a, mut b) = (vec![], vec![]);
    for i in 0..blocks {
        let sep = 10 + i as u32;
        a.push(sep);
        b.push(sep);
        let l = rng.range(1, 4);
        let x: Vec<u32> = (0..l).map(|_| rng.below(2) as u32).collect();
        let mut y = x.clone();
        for _ in 0..rng.range(1, 2) {
            let p = rng.below(y.len() + 1);
            if rng.chance(1, 4) && !y.is_empty() {
                y.remove(p.min(y.len() - 1));
            } else {
                let v = if p < y.len() && rng.chance(2, 3) { y[p] } else { rng.below(2) as u32 };
                y.insert(p, v);
            }
        }
        if rng.chance(1, 2) {
            a.extend(x);
            b.extend(y);
        } else {
            a.extend(y);
            b.extend(x);
        }
    }
    (a, b)
}

/// One representative per relabelling class of all pairs with both lengths <= maxlen over at most
/// `alpha` symbols (old ++ new is a restricted-growth string).
pub fn canonical_pairs(alpha: u32, maxlen: usize) -> Vec<Pair> {
    fn rec_gen(cur: &mut Vec<u32>, maxsym: u32, alpha: u32, maxtotal: usize, f: &mut dyn FnMut(&[u32])) {
        f(cur);
        if cur.len() == maxtotal {
            return;
        }
        for sy in 0..=(maxsym.min(alpha - 1)) {
            cur.push(sy);
            rec_gen(cur, if sy == maxsym { maxsym + 1 } else { maxsym }, alpha, maxtotal, f);
            cur.pop();
        }
    }
    let mut v = vec![];
    rec_gen(&mut vec![], 0, alpha, 2 * maxlen, &mut |st| {
        let lo = st.len().saturating_sub(maxlen);
        let hi = st.len().min(maxlen);
        for cut in lo..=hi {
            v.push((st[..cut].to_vec(), st[cut..].to_vec()));
        }
    });
    v
}

/// Anchor-heavy pairs: 35-110 mostly unique items (long runs of consecutive anchors) with a few
/// repeated items, where new is old with some unique items moved across one or two neighbours
/// (often repeated ones), a few items dropped and a few repeated items added.
pub fn anchor_heavy(rng: &mut Rng) -> Pair {
    let l = rng.range(35, 110);
    let mut a: Vec<u32> = (0..l as u32).map(|v| 100 + v).collect();
    for _ in 0..rng.range(1, 4) {
        let v = rng.below(3) as u32;
        for _ in 0..rng.range(2, 3) {
            let p = rng.below(a.len() + 1);
            a.insert(p, v);
        }
        // sometimes as an adjacent pair
        if rng.chance(1, 2) {
            let p = rng.below(a.len() + 1);
            a.insert(p, v);
            a.insert(p, v);
        }
    }
    let mut b = a.clone();
    for _ in 0..rng.range(1, 3) {
        // move one item across the one or two items that follow it
        if b.len() >= 4 {
            let p = rng.below(b.len() - 2);
            let v = b.remove(p);
            b.insert(p + rng.range(1, 2), v);
        }
    }
    // prefer moving a unique item across a repeated pair
    if let Some(p) = (0..b.len().saturating_sub(2)).find(|&p| b[p] >= 100 && b[p + 1] < 100 && b[p + 2] < 100) {
        if rng.chance(2, 3) {
            let v = b.remove(p);
            b.insert(p + 2, v);
        }
    }
    for _ in 0..rng.below(3) {
        let p = rng.below(b.len());
        if rng.chance(1, 2) {
            b.remove(p);
        } else {
            b.insert(p, rng.below(3) as u32);
        }
    }
    if rng.chance(1, 2) {
        (a, b)
    } else {
        (b, a)
    }
}
