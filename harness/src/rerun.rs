//! `sv rerun --in replay.ndjson --out trace.ndjson`: re-execute recorded cases against the
//! current /repo.  Record types without a re-execution path are copied (re-validated as recorded).
use crate::fam_a;
use crate::fam_h::{self, HCase};
use crate::fam_o;
use crate::rec;
use crate::util::{Args, Out};
use serde_json::Value;
use std::io::BufRead;

fn seq(v: &Value) -> Vec<u32> {
    v.as_array().unwrap().iter().map(|x| x.as_u64().unwrap() as u32).collect()
}
fn bytes(v: &Value) -> Vec<u8> {
    v.as_array().unwrap().iter().map(|x| x.as_u64().unwrap() as u8).collect()
}
fn stat(s: &str) -> &'static str {
    Box::leak(s.to_string().into_boxed_str())
}

pub fn rerun(a: &Args, out: &mut Out) {
    let path = a.get("in", "");
    let f = std::fs::File::open(&path).unwrap_or_else(|e| {
        eprintln!("cannot open {}: {}", path, e);
        std::process::exit(2)
    });
    let mut skipping_events = false;
    for line in std::io::BufReader::new(f).lines() {
        let v: Value = serde_json::from_str(&line.unwrap()).unwrap();
        let ev = v["ev"].as_str().unwrap_or("").to_string();
        match ev.as_str() {
            "replay_meta" => {}
            "start" => {
                skipping_events = true;
                let old = seq(&v["old"]);
                let new = seq(&v["new"]);
                if v.get("in").is_some() {
                    let script: Vec<similar::DiffOp> = v["in"]
                        .as_array()
                        .unwrap()
                        .iter()
                        .map(|t| rec::op_from(&t.as_array().unwrap().iter().map(|x| x.as_i64().unwrap()).collect::<Vec<_>>()))
                        .collect();
                    fam_a::run_adapter(&old, &new, &script, v["stack"].as_str().unwrap(), out);
                } else {
                    let c = HCase {
                        alg: fam_h::alg_from(v["alg"].as_str().unwrap()),
                        old,
                        new,
                        os: v["os"].as_u64().unwrap() as usize,
                        oe: v["oe"].as_u64().unwrap() as usize,
                        ns: v["ns"].as_u64().unwrap() as usize,
                        ne: v["ne"].as_u64().unwrap() as usize,
                        index: stat(v["index"].as_str().unwrap()),
                        stack: stat(v["stack"].as_str().unwrap()),
                        fuel: v["fuel"].as_i64().unwrap(),
                        fail_at: v["fail_at"].as_i64().unwrap(),
                        entry: stat(v["entry"].as_str().unwrap_or("dispatch_deadline")),
                        far: v["far"].as_u64().unwrap_or(0) as usize,
                    };
                    fam_h::run_case(&c, out);
                }
            }
            "ret" | "panic" => {
                skipping_events = false;
            }
            "ops" if v["alg"] != "script" => {
                let c = fam_o::from_json(&v);
                let case = out.next_case();
                out.emit(&fam_o::record(&c, case));
            }
            "ops" => {
                let script: Vec<similar::DiffOp> = v["in"]
                    .as_array()
                    .unwrap()
                    .iter()
                    .map(|t| rec::op_from(&t.as_array().unwrap().iter().map(|x| x.as_i64().unwrap()).collect::<Vec<_>>()))
                    .collect();
                let case = out.next_case();
                out.emit(&fam_a::ops_record(&seq(&v["old"]), &seq(&v["new"]), &script, case));
            }
            "expand1" => {
                let t: Vec<i64> = v["op"].as_array().unwrap().iter().map(|x| x.as_i64().unwrap()).collect();
                let case = out.next_case();
                out.emit(&crate::fam_f::expand_record(&seq(&v["old"]), &seq(&v["new"]), &rec::op_from(&t), case));
            }
            "group" => {
                let ops: Vec<similar::DiffOp> = v["ops"]
                    .as_array()
                    .unwrap()
                    .iter()
                    .map(|t| rec::op_from(&t.as_array().unwrap().iter().map(|x| x.as_i64().unwrap()).collect::<Vec<_>>()))
                    .collect();
                crate::fam_f::emit_group(&ops, v["n"].as_u64().unwrap() as usize, out);
            }
            "tokens" => {
                crate::fam_text::emit_tokens(&bytes(&v["input"]), out);
            }
            "udiff" => {
                let alg = fam_h::alg_from(v["alg"].as_str().unwrap());
                let (o, n) = (bytes(&v["old"]), bytes(&v["new"]));
                let radius = v["radius"].as_u64().unwrap() as usize;
                let (header, hint) = (v["header"].as_bool().unwrap(), v["hint"].as_bool().unwrap());
                let case = out.next_case();
                if v["mode"] == "str" {
                    let (os, ns) = (String::from_utf8(o).unwrap(), String::from_utf8(n).unwrap());
                    out.emit(&crate::fam_text3::udiff_record::<str>(case, alg, "str", radius, header, hint, &os, &ns));
                } else {
                    out.emit(&crate::fam_text3::udiff_record::<[u8]>(case, alg, "bytes", radius, header, hint, &o, &n));
                }
            }
            _ => {
                if !(skipping_events && matches!(ev.as_str(), "equal" | "delete" | "insert" | "replace" | "finish" | "probe")) {
                    // no re-execution path: keep the record as recorded
                    let mut w = v.clone();
                    w["recorded_only"] = Value::from(true);
                    out.emit(&w);
                }
            }
        }
    }
}
