//! Text generators over an alphabet of "interesting" characters.
use crate::util::Rng;

/// symbols that are valid UTF-8
pub fn str_symbols() -> Vec<&'static str> {
    vec![
        "a", "b", " ", "\n", "\r", "\t", "\u{a0}", "\u{2028}", "\u{e9}", "\u{301}", "\0", "\u{18}",
        "\u{85}", "\u{3000}", "x\u{301}", "\u{1F469}\u{200D}\u{1F4BB}", "\u{1F1E6}\u{1F1F9}", "\r\n", "ab", ".",
        "\u{feff}", "\u{b}", "\u{c}", "\u{1680}", "\u{202f}", "\u{200b}", "\u{2029}",
    ]
}

/// additional byte-string symbols that are not valid UTF-8
pub fn invalid_symbols() -> Vec<&'static [u8]> {
    vec![
        b"\xff",
        b"\xc3",
        b"\xe2\x82",
        b"\xf0\x9f\x98",
        b"\xed\xa0\x80",
        b"\xc0\xaf",
        b"\x80",
    ]
}

/// all strings of at most `maxlen` symbols over the first `nsym` str symbols
pub fn exhaustive_strs(nsym: usize, maxlen: usize) -> Vec<String> {
    let syms = str_symbols();
    let syms = &syms[..nsym.min(syms.len())];
    let mut out = vec![String::new()];
    let mut frontier = vec![String::new()];
    for _ in 0..maxlen {
        let mut next = vec![];
        for s in &frontier {
            for y in syms {
                next.push(format!("{}{}", s, y));
            }
        }
        out.extend(next.iter().cloned());
        frontier = next;
    }
    out
}

pub fn random_str(rng: &mut Rng, maxsyms: usize) -> String {
    let syms = str_symbols();
    let n = rng.below(maxsyms + 1);
    // bias: a few symbols dominate so that repeats and common runs occur
    let k = rng.range(2, syms.len());
    let mut s = String::new();
    for _ in 0..n {
        s.push_str(syms[rng.below(k)]);
    }
    s
}

pub fn random_bytes(rng: &mut Rng, maxsyms: usize) -> Vec<u8> {
    let syms = str_symbols();
    let inv = invalid_symbols();
    let n = rng.below(maxsyms + 1);
    let mut s = vec![];
    for _ in 0..n {
        if rng.chance(1, 4) {
            s.extend_from_slice(inv[rng.below(inv.len())]);
        } else {
            s.extend_from_slice(syms[rng.below(syms.len())].as_bytes());
        }
    }
    s
}

/// a text made of `n` lines drawn from a small pool (so that diffs have equal lines),
/// with mixed terminators and possibly a missing final newline
pub fn random_lines(rng: &mut Rng, n: usize, pool: usize) -> String {
    let bodies = ["a", "b", "", "c c", "\u{e9}", "x y z", "-", "+", " ", "@@", "\\", "d\u{301}", "e ", "f\t"];
    let terms = ["\n", "\n", "\n", "\r\n", "\r"];
    let mut s = String::new();
    for i in 0..n {
        s.push_str(bodies[rng.below(pool.min(bodies.len()))]);
        if i + 1 < n || rng.chance(3, 4) {
            s.push_str(terms[rng.below(terms.len())]);
        }
    }
    s
}

/// mutate a text line-wise
pub fn mutate_lines(rng: &mut Rng, s: &str, edits: usize, pool: usize) -> String {
    use similar::DiffableStr;
    let mut lines: Vec<String> = s.tokenize_lines().into_iter().map(|x| x.to_string()).collect();
    for _ in 0..edits {
        match rng.below(3) {
            0 if !lines.is_empty() => {
                let p = rng.below(lines.len());
                lines.remove(p);
            }
            1 => {
                let p = rng.below(lines.len() + 1);
                lines.insert(p, random_lines(rng, 1, pool));
            }
            _ if !lines.is_empty() => {
                let p = rng.below(lines.len());
                lines[p] = random_lines(rng, 1, pool);
            }
            _ => {}
        }
    }
    lines.concat()
}

/// Long "runny" text pairs: more than 100 tokens for every tokenizer, made of runs of repeated
/// symbols over a tiny alphabet (run lengths 1..40), the second text derived from the first by a
/// few single-symbol edits that prefer run boundaries (one more / one fewer repetition, a foreign
/// symbol in front of a run).
pub fn runny_pair(rng: &mut Rng) -> (String, String) {
    runny_pair_from(rng, false)
}

/// the same with whole lines as symbols
pub fn runny_line_pair(rng: &mut Rng) -> (String, String) {
    runny_pair_from(rng, true)
}

fn runny_pair_from(rng: &mut Rng, lines: bool) -> (String, String) {
    let line_alphabets: [&[&str]; 4] = [&["a\n", "\n"], &["x\n", "y\n", "\n"], &["a b\n", "a c\n", "\r\n"], &["}\n", "\n", "fn f() {\n"]];
    let alphabets: [&[&str]; 7] = [
        &["a", "b"],
        &["a ", "b "],
        &["a\n", "\n"],
        &["a", " ", "\n", "b"],
        &["x\n", "y\n", "\n"],
        &["a ", "\n", "b\r\n"],
        &["\u{e9}", " ", "a"],
    ];
    let al = if lines { line_alphabets[rng.below(line_alphabets.len())] } else { alphabets[rng.below(alphabets.len())] };
    let lens = [1usize, 1, 1, 2, 3, 5, 17, 18, 24, 40];
    let target = rng.range(110, 300);
    let mut a: Vec<usize> = vec![];
    let mut bounds: Vec<usize> = vec![0];
    let mut last = usize::MAX;
    while a.len() < target {
        let mut sy = rng.below(al.len());
        if sy == last {
            sy = (sy + 1) % al.len();
        }
        last = sy;
        for _ in 0..lens[rng.below(lens.len())] {
            a.push(sy);
        }
        bounds.push(a.len());
    }
    let mut b = a.clone();
    for _ in 0..rng.range(1, 4) {
        if b.is_empty() {
            break;
        }
        let p = if rng.chance(2, 3) { (*rng.pick(&bounds)).min(b.len()) } else { rng.below(b.len() + 1) };
        match rng.below(4) {
            0 if p < b.len() => {
                b.remove(p);
            }
            1 if p < b.len() => {
                let v = b[p];
                b.insert(p, v); // one more repetition in front of the run
            }
            2 if p > 0 => {
                b.remove(p - 1);
            }
            _ => b.insert(p, rng.below(al.len())),
        }
    }
    let cat = |v: &Vec<usize>| -> String { v.iter().map(|&i| al[i]).collect() };
    if rng.chance(1, 2) {
        (cat(&a), cat(&b))
    } else {
        (cat(&b), cat(&a))
    }
}

/// Long byte texts (> 100 tokens for the line and word tokenizers) whose tokens are mostly NOT
/// valid UTF-8 (Latin-1 words, truncated sequences), the second text derived from the first by
/// replacing / inserting / deleting a few tokens - different invalid tokens must stay different.
pub fn runny_bytes_pair(rng: &mut Rng) -> (Vec<u8>, Vec<u8>) {
    let words: [&[u8]; 8] = [b"caf\xe9", b"caf\xe8", b"\xff", b"\xfe", b"na\xefve", b"\xe2\x82", b"ok", b"\xc3"];
    let seps: [&[u8]; 3] = [b"\n", b" ", b"\r\n"];
    let sep = seps[rng.below(seps.len())];
    let n = rng.range(105, 220);
    let k = rng.range(2, words.len());
    let a: Vec<usize> = (0..n).map(|_| rng.below(k)).collect();
    let mut b = a.clone();
    for _ in 0..rng.range(1, 4) {
        let p = rng.below(b.len());
        match rng.below(3) {
            0 => b[p] = (b[p] + 1 + rng.below(words.len() - 1)) % words.len(),
            1 => {
                b.remove(p);
            }
            _ => b.insert(p, rng.below(words.len())),
        }
    }
    let cat = |v: &Vec<usize>| -> Vec<u8> {
        let mut o = vec![];
        for &i in v {
            o.extend_from_slice(words[i]);
            o.extend_from_slice(sep);
        }
        o
    };
    (cat(&a), cat(&b))
}
