//! Family A: the adapters Compact / Replace fed with arbitrary valid edit scripts (C10).
use crate::gen;
use crate::rec::{self, Item, Rec};
use crate::util::{seq_json, Args, Out, Rng};
use serde_json::{json, Value};
use similar::algorithms::{Capture, Compact, DiffHook, Replace};
use similar::DiffOp;

/// a random valid script for old -> new: any interleaving of delete/insert runs, split equal runs
pub fn random_script(rng: &mut Rng, old: &[u32], new: &[u32]) -> Vec<DiffOp> {
    let (mut oc, mut nc) = (0usize, 0usize);
    let mut ops = vec![];
    let eager = rng.below(4); // how eagerly equal items are matched
    while oc < old.len() || nc < new.len() {
        let can_eq = oc < old.len() && nc < new.len() && old[oc] == new[nc];
        let choice = rng.below(8);
        if can_eq && choice > eager {
            let mut k = 0;
            while oc + k < old.len() && nc + k < new.len() && old[oc + k] == new[nc + k] {
                k += 1;
            }
            let len = rng.range(1, k);
            ops.push(DiffOp::Equal {
                old_index: oc,
                new_index: nc,
                len,
            });
            oc += len;
            nc += len;
        } else if oc < old.len() && (nc >= new.len() || choice % 2 == 0) {
            let len = rng.range(1, (old.len() - oc).min(3));
            ops.push(DiffOp::Delete {
                old_index: oc,
                old_len: len,
                new_index: nc,
            });
            oc += len;
        } else if nc < new.len() {
            let len = rng.range(1, (new.len() - nc).min(3));
            ops.push(DiffOp::Insert {
                old_index: oc,
                new_index: nc,
                new_len: len,
            });
            nc += len;
        }
    }
    ops
}

/// "script first": build old/new from a random sequence of segments (equal runs, deletions,
/// insertions, replacements) so that scripts with many change runs occur; inserted/deleted items
/// are often chosen equal to the neighbouring equal items, which makes the compaction slide,
/// merge, swap and grow the op list.
pub fn scripted_case(rng: &mut Rng, nseg: usize, alpha: u32) -> (Vec<u32>, Vec<u32>, Vec<DiffOp>) {
    let (mut old, mut new, mut ops) = (vec![], vec![], vec![]);
    let mut last_eq: Vec<u32> = vec![];
    let mut last_change: Option<u32> = None; // first item of the last inserted/deleted run
    for _ in 0..nseg {
        let pick = |rng: &mut Rng, near: &Vec<u32>| -> u32 {
            if !near.is_empty() && rng.chance(1, 2) {
                *rng.pick(near)
            } else {
                rng.below(alpha as usize) as u32
            }
        };
        match rng.below(5) {
            0 | 1 => {
                let len = rng.range(1, 3);
                let mut seg: Vec<u32> = (0..len).map(|_| pick(rng, &last_eq)).collect();
                if let Some(v) = last_change.take() {
                    // the equal run often starts with the item just inserted/deleted: forces a slide
                    if rng.chance(2, 3) {
                        seg[0] = v;
                    }
                }
                ops.push(DiffOp::Equal {
                    old_index: old.len(),
                    new_index: new.len(),
                    len,
                });
                old.extend(&seg);
                new.extend(&seg);
                last_eq = seg;
            }
            2 => {
                let len = rng.range(1, 2);
                ops.push(DiffOp::Delete {
                    old_index: old.len(),
                    old_len: len,
                    new_index: new.len(),
                });
                for _ in 0..len {
                    let v = pick(rng, &last_eq);
                    old.push(v);
                }
            }
            3 => {
                let len = rng.range(1, 2);
                ops.push(DiffOp::Insert {
                    old_index: old.len(),
                    new_index: new.len(),
                    new_len: len,
                });
                for k in 0..len {
                    let v = pick(rng, &last_eq);
                    if k == 0 {
                        last_change = Some(v);
                    }
                    new.push(v);
                }
            }
            _ => {
                let (dl, il) = (rng.range(1, 2), rng.range(1, 2));
                ops.push(DiffOp::Delete {
                    old_index: old.len(),
                    old_len: dl,
                    new_index: new.len(),
                });
                for _ in 0..dl {
                    let v = pick(rng, &last_eq);
                    old.push(v);
                }
                ops.push(DiffOp::Insert {
                    old_index: old.len(),
                    new_index: new.len(),
                    new_len: il,
                });
                for k in 0..il {
                    let v = pick(rng, &last_eq);
                    if k == 0 {
                        last_change = Some(v);
                    }
                    new.push(v);
                }
            }
        }
    }
    // the equal segments were declared equal by construction; everything else is a change
    (old, new, ops)
}

/// Block templates that make the compaction *grow* the op list (an insertion that slides down
/// with no Equal op in front of it leaves a new Equal op behind) and then need a slide at the far
/// end of the list: (Delete) Insert [v ..] Equal [v w ..] blocks in sequence.
pub fn template_case(rng: &mut Rng, nblocks: usize) -> (Vec<u32>, Vec<u32>, Vec<DiffOp>) {
    let (mut old, mut new, mut ops): (Vec<u32>, Vec<u32>, Vec<DiffOp>) = (vec![], vec![], vec![]);
    let mut fresh = 10u32;
    let mut val = |rng: &mut Rng, fresh: &mut u32| -> u32 {
        if rng.chance(1, 3) {
            rng.below(3) as u32
        } else {
            *fresh += 1;
            *fresh
        }
    };
    for _ in 0..nblocks {
        let kind = rng.below(6);
        let v = val(rng, &mut fresh);
        let w = val(rng, &mut fresh);
        let push_del = |old: &mut Vec<u32>, new: &Vec<u32>, ops: &mut Vec<DiffOp>, items: &[u32]| {
            ops.push(DiffOp::Delete {
                old_index: old.len(),
                old_len: items.len(),
                new_index: new.len(),
            });
            old.extend_from_slice(items);
        };
        let push_ins = |old: &Vec<u32>, new: &mut Vec<u32>, ops: &mut Vec<DiffOp>, items: &[u32]| {
            ops.push(DiffOp::Insert {
                old_index: old.len(),
                new_index: new.len(),
                new_len: items.len(),
            });
            new.extend_from_slice(items);
        };
        let push_eq = |old: &mut Vec<u32>, new: &mut Vec<u32>, ops: &mut Vec<DiffOp>, items: &[u32]| {
            ops.push(DiffOp::Equal {
                old_index: old.len(),
                new_index: new.len(),
                len: items.len(),
            });
            old.extend_from_slice(items);
            new.extend_from_slice(items);
        };
        match kind {
            0 => {
                let x = val(rng, &mut fresh);
                push_del(&mut old, &new, &mut ops, &[x]);
                push_ins(&old, &mut new, &mut ops, &[v]);
                push_eq(&mut old, &mut new, &mut ops, &[v, w]);
            }
            1 => {
                push_ins(&old, &mut new, &mut ops, &[v]);
                push_eq(&mut old, &mut new, &mut ops, &[v]);
            }
            2 => {
                push_ins(&old, &mut new, &mut ops, &[v]);
                push_eq(&mut old, &mut new, &mut ops, &[v, w]);
            }
            3 => {
                push_eq(&mut old, &mut new, &mut ops, &[v, w]);
            }
            4 => {
                push_del(&mut old, &new, &mut ops, &[v]);
                push_eq(&mut old, &mut new, &mut ops, &[v, w]);
            }
            _ => {
                push_ins(&old, &mut new, &mut ops, &[v, w]);
                push_eq(&mut old, &mut new, &mut ops, &[v, w, v]);
            }
        }
    }
    (old, new, ops)
}

pub const ASTACKS: [&str; 3] = ["compact", "replace", "compact_replace"];

fn feed<D: DiffHook<Error = i64>>(d: &mut D, script: &[DiffOp]) -> Result<(), i64> {
    for op in script {
        op.apply_to_hook(d)?;
    }
    d.finish()
}

/// feed `script` into the adapter stack; writes a hook trace (start has "in")
pub fn run_adapter(old: &[u32], new: &[u32], script: &[DiffOp], stack: &str, out: &mut Out) {
    let case = out.next_case();
    out.emit(&json!({"ev":"start","case":case,"alg":"script","old":seq_json(old),"new":seq_json(new),
        "os":0,"oe":old.len(),"ns":0,"ne":new.len(),"index":"slice","stack":stack,"fuel":-2,"fail_at":-1,
        "in":rec::ops_json(script)}));
    out.flush();
    rec::clear_events();
    rec::reset_cmps();
    let o = rec::items(old);
    let n = rec::items(new);
    let r = rec::guarded(|| match stack {
        "compact" => {
            let mut d = Compact::new(Rec::new(-1), &o[..], &n[..]);
            feed(&mut d, script)
        }
        "replace" => {
            let mut d = Replace::new(Rec::new(-1));
            feed(&mut d, script)
        }
        // the adapters stacked the other way round: Replace feeding Compact (Compact receives
        // `replace` calls); validity and totals are demanded, not the normal form
        "replace_over_compact" => {
            let mut d = Replace::new(Compact::new(Rec::new(-1), &o[..], &n[..]));
            feed(&mut d, script)
        }
        // the same adapters over a sink that is handed over by reference
        "replace_ref" => {
            let mut sink = Rec::new(-1);
            let mut d = Replace::new(&mut sink);
            feed(&mut d, script)
        }
        "compact_replace_ref" => {
            let mut sink = Rec::new(-1);
            let mut d = Compact::new(Replace::new(&mut sink), &o[..], &n[..]);
            feed(&mut d, script)
        }
        _ => {
            let mut d = Compact::new(Replace::new(Rec::new(-1)), &o[..], &n[..]);
            feed(&mut d, script)
        }
    });
    for e in rec::take_events() {
        out.emit(&e);
    }
    match r {
        None => out.emit(&json!({"ev":"panic","case":case})),
        Some(Ok(())) => out.emit(&json!({"ev":"ret","case":case,"ok":true,"err":-1,"cmps":rec::cmps(),"probes":0,"xcmps":-1})),
        Some(Err(k)) => out.emit(&json!({"ev":"ret","case":case,"ok":false,"err":k,"cmps":rec::cmps(),"probes":0,"xcmps":-1})),
    }
}

/// the same through Compact + Replace + Capture, as an "ops" record for TraceOps (normal form)
pub fn ops_record(old: &[u32], new: &[u32], script: &[DiffOp], case: i64) -> Value {
    let o = rec::items(old);
    let n = rec::items(new);
    let run = |repair: bool| {
        similar::verif_hooks::set_swap_repair(repair);
        let r = rec::guarded(|| {
            let mut d = Compact::new(Replace::new(Capture::new()), &o[..], &n[..]);
            for op in script {
                op.apply_to_hook(&mut d).unwrap();
            }
            d.finish().unwrap();
            d.into_inner().into_inner().into_ops()
        });
        similar::verif_hooks::set_swap_repair(false);
        r
    };
    let _ = similar::verif_hooks::take_swap_count();
    let plain = run(false);
    let swaps = similar::verif_hooks::take_swap_count();
    let rep = run(true);
    let unc = rec::guarded(|| {
        let mut d = Replace::new(Capture::new());
        for op in script {
            op.apply_to_hook(&mut d).unwrap();
        }
        d.finish().unwrap();
        d.into_inner().into_ops()
    });
    let cc = match (&plain, &unc) {
        (Some(a), Some(b)) => a != b,
        _ => false,
    };
    json!({"ev":"ops","case":case,"entry":"script","alg":"script","old":seq_json(old),"new":seq_json(new),
        "os":0,"oe":old.len(),"ns":0,"ne":new.len(),"fuel":-2,"probes":0,"swaps":swaps,
        "panic":plain.is_none(),"ops":plain.as_ref().map(|x| rec::ops_json(x)).unwrap_or(json!([])),
        "cc":cc,"in":rec::ops_json(script),
        "ratio_u":0,"ratio_one":old == new,"ratio_in01":true,
        "rep_panic":rep.is_none(),"ops_rep":rep.as_ref().map(|x| rec::ops_json(x)).unwrap_or(json!([]))})
}

fn script_pairs(a: &Args, rng: &mut Rng) -> Vec<gen::Pair> {
    let thorough = a.thorough();
    let mut pairs = if thorough {
        let mut p = gen::exhaustive_pairs(2, 5);
        p.extend(gen::exhaustive_pairs(3, 3));
        p
    } else {
        gen::exhaustive_pairs(2, 4)
    };
    let (nrand, maxlen) = if thorough { (6000, 30) } else { (600, 14) };
    for _ in 0..a.num("nrand", nrand) {
        pairs.push(gen::random_pair(rng, maxlen));
    }
    pairs
}

fn scripted_cases(a: &Args, rng: &mut Rng) -> Vec<(Vec<u32>, Vec<u32>, Vec<DiffOp>)> {
    let n = if a.thorough() { 30000 } else { 2500 };
    let mut v: Vec<(Vec<u32>, Vec<u32>, Vec<DiffOp>)> = (0..n / 2)
        .map(|_| {
            let nb = rng.range(1, 6);
            template_case(rng, nb)
        })
        .collect();
    v.extend((0..n)
        .map(|i| {
            let nseg = if i % 3 == 0 { rng.range(6, 14) } else { rng.range(2, 8) };
            let alpha = *rng.pick(&[2u32, 3, 5]);
            scripted_case(rng, nseg, alpha)
        }));
    v
}

pub fn drive_c10(a: &Args, out: &mut Out) {
    let mut rng = Rng::new(a.num("seed", 1));
    let per = if a.thorough() { 6 } else { 3 };
    for (i, (x, y, script)) in scripted_cases(a, &mut rng).into_iter().enumerate() {
        for st in ASTACKS {
            run_adapter(&x, &y, &script, st, out);
        }
        if i % 3 == 0 {
            run_adapter(&x, &y, &script, "replace_ref", out);
            run_adapter(&x, &y, &script, "compact_replace_ref", out);
        }
        if i % 3 == 1 {
            run_adapter(&x, &y, &script, "replace_over_compact", out);
        }
    }
    for (i, (x, y)) in script_pairs(a, &mut rng).into_iter().enumerate() {
        for _ in 0..per {
            let script = random_script(&mut rng, &x, &y);
            for st in ASTACKS {
                run_adapter(&x, &y, &script, st, out);
            }
            if i % 3 == 0 {
                run_adapter(&x, &y, &script, "replace_ref", out);
                run_adapter(&x, &y, &script, "compact_replace_ref", out);
            }
            if i % 3 == 1 {
                run_adapter(&x, &y, &script, "replace_over_compact", out);
            }
        }
    }
}

/// op-list view of the same family (normal form / exact positions of Compact+Replace output)
pub fn drive_c10ops(a: &Args, out: &mut Out) {
    let mut rng = Rng::new(a.num("seed", 1));
    let per = if a.thorough() { 6 } else { 3 };
    for (x, y, script) in scripted_cases(a, &mut rng) {
        let case = out.next_case();
        out.emit(&ops_record(&x, &y, &script, case));
    }
    for (x, y) in script_pairs(a, &mut rng) {
        for _ in 0..per {
            let script = random_script(&mut rng, &x, &y);
            let case = out.next_case();
            out.emit(&ops_record(&x, &y, &script, case));
        }
    }
}

#[allow(dead_code)]
pub fn unused(_: Item) {}

// ------------------------------------------------------------------ step-level conformance

/// run `f` with the cleanup step tracer installed; returns the recorded steps
pub fn with_cleanup_trace<T>(f: impl FnOnce() -> T) -> (Option<T>, Vec<Value>) {
    use std::cell::RefCell;
    use std::rc::Rc;
    let steps: Rc<RefCell<Vec<Value>>> = Rc::new(RefCell::new(vec![]));
    let s2 = steps.clone();
    similar::verif_hooks::install_cleanup_tracer(Some(Box::new(move |arm, ptr, ops| {
        s2.borrow_mut().push(json!([arm, ptr, rec::ops_json(ops)]));
    })));
    let r = rec::guarded(f);
    similar::verif_hooks::install_cleanup_tracer(None);
    let v = steps.borrow().clone();
    (r, v)
}

pub fn drive_steps(a: &Args, out: &mut Out) {
    let mut rng = Rng::new(a.num("seed", 1));
    let thorough = a.thorough();
    // (1) arbitrary scripts through Compact
    let mut pairs = gen::exhaustive_pairs(2, if thorough { 5 } else { 4 });
    for _ in 0..(if thorough { 6000 } else { 800 }) {
        pairs.push(gen::random_pair(&mut rng, if thorough { 40 } else { 20 }));
    }
    for (i, (x, y)) in pairs.iter().enumerate() {
        let o = rec::items(x);
        let n = rec::items(y);
        let script = random_script(&mut rng, x, y);
        let (r, steps) = with_cleanup_trace(|| {
            let mut d = Compact::new(Capture::new(), &o[..], &n[..]);
            for op in &script {
                op.apply_to_hook(&mut d).unwrap();
            }
            d.finish().unwrap();
        });
        let case = out.next_case();
        out.emit(&json!({"ev":"cleanup","case":case,"src":"script","old":seq_json(x),"new":seq_json(y),
            "panic":r.is_none(),"steps":steps}));
        // (2) the scripts the real algorithms produce
        if i % 2 == 0 {
            for alg in crate::fam_h::ALGS {
                let (r, steps) = with_cleanup_trace(|| similar::capture_diff_slices(alg, &o, &n));
                let case = out.next_case();
                out.emit(&json!({"ev":"cleanup","case":case,"src":crate::fam_h::alg_name(alg),
                    "old":seq_json(x),"new":seq_json(y),"panic":r.is_none(),"steps":steps}));
            }
        }
    }
}
