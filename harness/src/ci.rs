//! A user-defined `DiffableStr` type: a string view whose equality, order and hash ignore ASCII
//! case (all three agree with each other).  The text functions must diff by the type's own `==`,
//! exactly as the slice functions do on the same tokens.
use similar::DiffableStr;
use std::borrow::{Borrow, Cow};
use std::cmp::Ordering;
use std::hash::{Hash, Hasher};
use std::ops::Range;

#[repr(transparent)]
pub struct Ci(str);

pub struct CiBuf(String);

impl Ci {
    pub fn new(s: &str) -> &Ci {
        // SAFETY: Ci is a transparent wrapper around str
        unsafe { &*(s as *const str as *const Ci) }
    }
    fn folded(&self) -> impl Iterator<Item = u8> + '_ {
        self.0.bytes().map(|b| b.to_ascii_lowercase())
    }
}
impl PartialEq for Ci {
    fn eq(&self, other: &Ci) -> bool {
        self.0.eq_ignore_ascii_case(&other.0)
    }
}
impl Eq for Ci {}
impl Hash for Ci {
    fn hash<H: Hasher>(&self, state: &mut H) {
        for b in self.folded() {
            state.write_u8(b);
        }
        state.write_u8(0xff);
    }
}
impl Ord for Ci {
    fn cmp(&self, other: &Ci) -> Ordering {
        self.folded().cmp(other.folded())
    }
}
impl PartialOrd for Ci {
    fn partial_cmp(&self, other: &Ci) -> Option<Ordering> {
        Some(self.cmp(other))
    }
}
impl Borrow<Ci> for CiBuf {
    fn borrow(&self) -> &Ci {
        Ci::new(&self.0)
    }
}
impl ToOwned for Ci {
    type Owned = CiBuf;
    fn to_owned(&self) -> CiBuf {
        CiBuf(self.0.to_string())
    }
}

fn wrap(v: Vec<&str>) -> Vec<&Ci> {
    v.into_iter().map(Ci::new).collect()
}

impl DiffableStr for Ci {
    fn tokenize_lines(&self) -> Vec<&Self> {
        wrap(self.0.tokenize_lines())
    }
    fn tokenize_lines_and_newlines(&self) -> Vec<&Self> {
        wrap(self.0.tokenize_lines_and_newlines())
    }
    fn tokenize_words(&self) -> Vec<&Self> {
        wrap(self.0.tokenize_words())
    }
    fn tokenize_chars(&self) -> Vec<&Self> {
        wrap(self.0.tokenize_chars())
    }
    #[cfg(feature = "unicode")]
    fn tokenize_unicode_words(&self) -> Vec<&Self> {
        wrap(self.0.tokenize_unicode_words())
    }
    #[cfg(feature = "unicode")]
    fn tokenize_graphemes(&self) -> Vec<&Self> {
        wrap(self.0.tokenize_graphemes())
    }
    fn as_str(&self) -> Option<&str> {
        Some(&self.0)
    }
    fn to_string_lossy(&self) -> Cow<'_, str> {
        Cow::Borrowed(&self.0)
    }
    fn ends_with_newline(&self) -> bool {
        self.0.ends_with_newline()
    }
    fn len(&self) -> usize {
        self.0.len()
    }
    fn slice(&self, rng: Range<usize>) -> &Self {
        Ci::new(&self.0[rng])
    }
    fn as_bytes(&self) -> &[u8] {
        self.0.as_bytes()
    }
}
