//! Builder histories: any sequence of setter calls on TextDiffConfig / UnifiedDiff, then the
//! final diff / render, recorded event by event (validated against spec/abstract/Builder.tla).
use crate::fam_h::{alg_name, ALGS};
use crate::rec::{self, ops_json};
use crate::textgen;
use crate::util::{bytes_json, Args, Out, Rng};
use serde_json::json;
use similar::{capture_diff_slices_deadline, DiffableStr, TextDiff};
use std::time::Duration;

pub fn drive_builder(a: &Args, out: &mut Out) {
    let mut rng = Rng::new(a.num("seed", 1));
    let n = if a.thorough() { 20000 } else { 2000 };
    for i in 0..n {
        let nl = rng.range(1, 7);
        let old = textgen::random_lines(&mut rng, nl, 5);
        let e = rng.range(1, 3);
        let new = textgen::mutate_lines(&mut rng, &old, e, 5);
        let case = out.next_case();
        out.emit(&json!({"ev":"bstart","case":case}));
        let mut cfg = TextDiff::configure();
        let ncalls = rng.below(6);
        for _ in 0..ncalls {
            match rng.below(4) {
                0 => {
                    let alg = ALGS[rng.below(3)];
                    cfg.algorithm(alg);
                    out.emit(&json!({"ev":"bcall","name":"algorithm","arg":alg_name(alg)}));
                }
                1 => {
                    let b = rng.chance(1, 2);
                    cfg.newline_terminated(b);
                    out.emit(&json!({"ev":"bcall","name":"newline_terminated","arg": if b {1} else {0}}));
                }
                2 => {
                    cfg.deadline(rec::far_future());
                    out.emit(&json!({"ev":"bcall","name":"deadline","arg":0}));
                }
                _ => {
                    cfg.timeout(Duration::from_secs(86400));
                    out.emit(&json!({"ev":"bcall","name":"timeout","arg":0}));
                }
            }
        }
        let kind = ["lines", "words", "chars"][i % 3];
        // the configuration object is reused for two diffs: it must not be consumed or altered
        let r = rec::guarded(|| {
            rec::install_clock(0, false);
            let diff = match kind {
                "lines" => cfg.diff_lines(&old, &new),
                "words" => cfg.diff_words(&old, &new),
                _ => cfg.diff_chars(&old, &new),
            };
            let probed = rec::probes() > 0;
            rec::remove_clock();
            let (ot, nt) = match kind {
                "lines" => (old.tokenize_lines(), new.tokenize_lines()),
                "words" => (old.tokenize_words(), new.tokenize_words()),
                _ => (old.tokenize_chars(), new.tokenize_chars()),
            };
            let alg = diff.algorithm();
            let ref_none = capture_diff_slices_deadline(alg, &ot, &nt, None);
            rec::install_clock(0, false);
            let ref_fuel0 = capture_diff_slices_deadline(alg, &ot, &nt, Some(rec::far_future()));
            let ref_probed = rec::probes() > 0;
            rec::remove_clock();
            json!({"ev":"bdiff","panic":false,"kind":kind,"alg":alg_name(alg),"nlt":diff.newline_terminated(),
                   "probed":probed,"ops":ops_json(diff.ops()),"ref_none":ops_json(&ref_none),
                   "ref_fuel0":ops_json(&ref_fuel0),"ref_probed":ref_probed})
        });
        out.emit(&r.unwrap_or(json!({"ev":"bdiff","panic":true,"kind":kind})));
        // unified diff builder on a plain line diff
        let diff = TextDiff::from_lines(&old, &new);
        let mut ud = diff.unified_diff();
        let ncalls = rng.below(6);
        for _ in 0..ncalls {
            match rng.below(3) {
                0 => {
                    let r = rng.below(4);
                    ud.context_radius(r);
                    out.emit(&json!({"ev":"ucall","name":"context_radius","arg":r}));
                }
                1 => {
                    ud.header("a", "b");
                    out.emit(&json!({"ev":"ucall","name":"header","arg":0}));
                }
                _ => {
                    let b = rng.chance(2, 3);
                    ud.missing_newline_hint(b);
                    out.emit(&json!({"ev":"ucall","name":"missing_newline_hint","arg": if b {1} else {0}}));
                }
            }
        }
        let r = rec::guarded(|| {
            similar::verif_hooks::set_swap_repair(true); // judge the builder, not known finding KF-2
            let s = ud.to_string();
            similar::verif_hooks::set_swap_repair(false);
            s
        });
        // NB: the diff was computed before the switch was set; recompute under the switch
        let r = r.and_then(|_| {
            rec::guarded(|| {
                similar::verif_hooks::set_swap_repair(true);
                let d2 = TextDiff::from_lines(&old, &new);
                similar::verif_hooks::set_swap_repair(false);
                d2.ops().to_vec()
            })
        })
        .map(|ops_rep| {
            // render the builder's settings over the repaired diff by replaying the same calls is not
            // possible (the builder borrows its diff); instead only cases without swaps are judged
            (ops_rep == diff.ops(), ud.to_string())
        });
        match r {
            Some((true, s)) => out.emit(&json!({"ev":"urender","panic":false,"old":bytes_json(old.as_bytes()),
                "new":bytes_json(new.as_bytes()),"out":bytes_json(s.as_bytes())})),
            Some((false, _)) => {}
            None => out.emit(&json!({"ev":"urender","panic":true})),
        }
    }
}
