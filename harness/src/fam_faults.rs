//! Fault families: deadline expiry at every probe index (C07) and a failing
//! hook call at every call index (C08), and their product.
use crate::fam_h::{alg_name, exec, run_case, stream_tuples, HCase, ALGS, STACKS};
use crate::fam_o::{self, OCase};
use crate::gen::{self, Pair};
use crate::rec;
use crate::util::{seq_json, Args, Out, Rng};
use serde_json::{json, Value};
use similar::{Algorithm, TextDiff};
use std::time::{Duration, Instant};

fn pairs_for_faults(a: &Args, rng: &mut Rng) -> Vec<Pair> {
    let thorough = a.thorough();
    let mut pairs = if thorough {
        let mut p = gen::exhaustive_pairs(3, 4);
        p.extend(gen::exhaustive_pairs(2, 5));
        p
    } else {
        gen::exhaustive_pairs(3, 3)
    };
    let (nrand, maxlen) = if thorough { (6000, 40) } else { (500, 20) };
    for _ in 0..a.num("nrand", nrand) {
        pairs.push(gen::random_pair(rng, maxlen));
    }
    pairs
}

fn fuels(p: usize, max: usize, rng: &mut Rng) -> Vec<i64> {
    if p <= max {
        (0..p as i64).collect()
    } else {
        let mut ks = vec![0, 1, 2, p - 1, p - 2];
        while ks.len() < max {
            ks.push(rng.below(p));
        }
        ks.sort();
        ks.dedup();
        ks.into_iter().map(|x| x as i64).collect()
    }
}

fn tuples_json(t: &[Vec<i64>]) -> Value {
    json!(t)
}

/// "Patience hard gaps": a few unique anchors separating unrelated blocks of
/// non-unique items.  An inner run that lost its deadline keeps searching.
pub fn hard_gap_pair(rng: &mut Rng, blocks: usize, blk: usize) -> Pair {
    let mut a = vec![];
    let mut b = vec![];
    for i in 0..blocks {
        // unrelated, non-unique (each value twice) blocks
        let la = rng.range(blk / 2, blk);
        let lb = rng.range(blk / 2, blk);
        for j in 0..la {
            a.push(1000 + (i * 100 + j / 2) as u32);
        }
        for j in 0..lb {
            b.push(5000 + (i * 100 + j / 2) as u32);
        }
        if i + 1 < blocks {
            a.push(i as u32); // unique anchor
            b.push(i as u32);
        }
    }
    (a, b)
}

pub fn drive_c07(a: &Args, out: &mut Out) {
    let mut rng = Rng::new(a.num("seed", 1));
    let thorough = a.thorough();
    let mut pairs = pairs_for_faults(a, &mut rng);
    let nhard = if thorough { 60 } else { 8 };
    for i in 0..nhard {
        pairs.push(hard_gap_pair(&mut rng, 2 + i % 3, if thorough { 40 } else { 24 }));
    }
    // the same with gaps that are expensive compared with N+M (an exact diff of one gap costs
    // far more than the few multiples of N+M allowed after expiry)
    for i in 0..(if thorough { 12 } else { 3 }) {
        pairs.push(hard_gap_pair(&mut rng, 3 + i % 2, 110));
    }
    for (i, (x, y)) in pairs.iter().enumerate() {
        let small = x.len() + y.len() <= 8;
        for alg in ALGS {
            // (1) no deadline vs a deadline that never expires
            let c_none = HCase::simple(alg, x, y);
            let r_none = exec(&c_none);
            let mut c_never = c_none.clone();
            c_never.fuel = -1;
            let r_never = run_case(&c_never, out);
            let case = out.next_case();
            out.emit(&json!({"ev":"same","case":case,"clause":"never_eq","alg":alg_name(alg),
                "old":seq_json(x),"new":seq_json(y),
                "a":{"s":tuples_json(&stream_tuples(&r_none.events)),"ok":matches!(r_none.ret, Some(Ok(())))},
                "b":{"s":tuples_json(&stream_tuples(&r_never.events)),"ok":matches!(r_never.ret, Some(Ok(())))}}));
            // (2) every expiry index
            let p = r_never.probes as usize;
            for k in fuels(p, if small { 64 } else { 8 }, &mut rng) {
                let mut c = c_none.clone();
                c.fuel = k;
                if i % 5 == 0 {
                    // sub-range under the panicking window
                    let (po, os, oe, pn, ns, ne) = gen::pad(&mut rng, x, y, 2);
                    c.old = po;
                    c.new = pn;
                    c.os = os;
                    c.oe = oe;
                    c.ns = ns;
                    c.ne = ne;
                    c.index = "window";
                }
                if i % 7 == 3 {
                    c.stack = "compact_replace";
                }
                run_case(&c, out);
            }
        }
    }
    drive_plumbing(a, out, &mut rng);
}

fn text_tokens(xs: &[u32]) -> Vec<String> {
    xs.iter().map(|x| format!("t{}\n", x)).collect()
}

fn textdiff_ops(alg: Algorithm, x: &[u32], y: &[u32], via: &str, fuel: i64) -> (Option<Vec<similar::DiffOp>>, i64) {
    let old = text_tokens(x);
    let new = text_tokens(y);
    let o: Vec<&str> = old.iter().map(|s| s.as_str()).collect();
    let n: Vec<&str> = new.iter().map(|s| s.as_str()).collect();
    let ot: String = old.concat();
    let nt: String = new.concat();
    if via != "real_expired" {
        rec::install_clock(fuel, false);
    }
    let r = rec::guarded(|| {
        let mut cfg = TextDiff::configure();
        cfg.algorithm(alg);
        match via {
            "textdiff_deadline" | "textdiff_lines_deadline" => {
                cfg.deadline(rec::far_future());
            }
            "textdiff_timeout" => {
                cfg.timeout(Duration::from_secs(86400));
            }
            "textdiff_timeout_max" => {
                // an unrepresentable deadline means "no deadline"
                cfg.timeout(Duration::MAX);
            }
            "textdiff_timeout_huge" => {
                cfg.timeout(Duration::from_secs(u64::MAX / 2));
            }
            "real_expired" => {
                cfg.deadline(Instant::now().checked_sub(Duration::from_millis(50)).unwrap_or_else(Instant::now));
            }
            _ => panic!("via"),
        }
        if via == "textdiff_lines_deadline" {
            cfg.diff_lines(&ot, &nt).ops().to_vec()
        } else {
            cfg.diff_slices(&o, &n).ops().to_vec()
        }
    });
    let probes = if via != "real_expired" { rec::probes() } else { -1 };
    rec::remove_clock();
    (r, probes)
}

/// `timeout(d)` is a budget for the diff operation: a builder configured earlier (and reused,
/// or cloned) must still give a tiny diff its full budget.  Real clock, generous margins (the
/// timeout is 2 s for a diff that takes microseconds, the pause 2.2 s), so this cannot flake.
fn drive_timeout_reuse(out: &mut Out) {
    let old = "a\nb\nc\nd\ne\nf\ng\n";
    let new = "a\nB\nc\nd\ne\nF\ng\n";
    let mut handles = vec![];
    for alg in ALGS {
        handles.push(std::thread::spawn(move || {
            let mut cfg = TextDiff::configure();
            cfg.algorithm(alg);
            cfg.timeout(Duration::from_millis(2000));
            let reference = TextDiff::configure().algorithm(alg).diff_lines(old, new).ops().to_vec();
            std::thread::sleep(Duration::from_millis(2200));
            let cloned = cfg.clone();
            let a = cfg.diff_lines(old, new).ops().to_vec();
            let b = cloned.diff_lines(old, new).ops().to_vec();
            (alg, reference, a, b)
        }));
    }
    for h in handles {
        if let Ok((alg, reference, a, b)) = h.join() {
            for (via, got) in [("real_timeout_reuse", a), ("real_timeout_clone", b)] {
                let case = out.next_case();
                out.emit(&json!({"ev":"same","case":case,"clause":"plumbing","via":via,"alg":alg_name(alg),
                    "old":[],"new":[],"fuel":-2,
                    "a":{"ops":rec::ops_json(&reference),"panic":false,"probed":true},
                    "b":{"ops":rec::ops_json(&got),"panic":false,"probed":true}}));
            }
        }
    }
}

/// Sequences of calls on ONE thread under the real clock: a diff that runs out of time must not
/// influence a later diff whose deadline lies an hour ahead (or that has no deadline) - "a
/// deadline that never expires gives exactly the result of no deadline" also as the second,
/// third ... call of a thread.  No timing assumption beyond "a diff of 40 items takes < 1 h".
fn drive_real_sequences(out: &mut Out, rng: &mut Rng) {
    for round in 0..3 {
        let (x, y) = hard_gap_pair(rng, 3, 10);
        let xs: Vec<String> = x.iter().map(|v| format!("{}\n", v)).collect();
        let ys: Vec<String> = y.iter().map(|v| format!("{}\n", v)).collect();
        let (xt, yt) = (xs.concat(), ys.concat());
        for alg in ALGS {
            let (x, y, xt, yt) = (x.clone(), y.clone(), xt.clone(), yt.clone());
            let h = std::thread::spawn(move || {
                let reference = similar::capture_diff_slices(alg, &x, &y);
                let far = || Instant::now() + Duration::from_secs(3600);
                let mut got: Vec<(&'static str, Option<Vec<similar::DiffOp>>)> = vec![];
                // far deadline before anything expired
                got.push(("real_far_first", rec::guarded(|| similar::capture_diff_slices_deadline(alg, &x, &y, Some(far())))));
                // a diff that is out of time from the start
                let expired_at = Instant::now();
                std::thread::sleep(Duration::from_millis(2));
                let _ = rec::guarded(|| similar::capture_diff_slices_deadline(alg, &x, &y, Some(expired_at)));
                // ... followed by diffs that have all the time in the world
                got.push(("real_far_after_expiry", rec::guarded(|| similar::capture_diff_slices_deadline(alg, &x, &y, Some(far())))));
                got.push(("real_none_after_expiry", rec::guarded(|| similar::capture_diff_slices_deadline(alg, &x, &y, None))));
                got.push((
                    "real_textdiff_deadline_after_expiry",
                    rec::guarded(|| TextDiff::configure().algorithm(alg).deadline(far()).diff_lines(&xt[..], &yt[..]).ops().to_vec()),
                ));
                got.push((
                    "real_textdiff_timeout_after_expiry",
                    rec::guarded(|| TextDiff::configure().algorithm(alg).timeout(Duration::from_secs(3600)).diff_lines(&xt[..], &yt[..]).ops().to_vec()),
                ));
                // an expired text diff, then a far one on the same builder family
                let _ = rec::guarded(|| TextDiff::configure().algorithm(alg).timeout(Duration::ZERO).diff_lines(&xt[..], &yt[..]).ops().to_vec());
                got.push((
                    "real_textdiff_timeout_after_zero_timeout",
                    rec::guarded(|| TextDiff::configure().algorithm(alg).timeout(Duration::from_secs(3600)).diff_lines(&xt[..], &yt[..]).ops().to_vec()),
                ));
                let mut d = similar::algorithms::Replace::new(similar::algorithms::Capture::new());
                let raw = rec::guarded(|| {
                    similar::algorithms::diff_deadline(alg, &mut d, &x[..], 0..x.len(), &y[..], 0..y.len(), Some(far())).unwrap();
                });
                let raw_ref = {
                    let mut d2 = similar::algorithms::Replace::new(similar::algorithms::Capture::new());
                    similar::algorithms::diff_deadline(alg, &mut d2, &x[..], 0..x.len(), &y[..], 0..y.len(), None).unwrap();
                    d2.into_inner().into_ops()
                };
                let raw_got = raw.map(|_| d.into_inner().into_ops());
                (reference, got, raw_ref, raw_got)
            });
            if let Ok((reference, got, raw_ref, raw_got)) = h.join() {
                let mut emit = |via: &str, r: &[similar::DiffOp], g: &Option<Vec<similar::DiffOp>>| {
                    let case = out.next_case();
                    out.emit(&json!({"ev":"same","case":case,"clause":"plumbing","via":via,"alg":alg_name(alg),"round":round,
                        "old":[],"new":[],"fuel":-2,
                        "a":{"ops":rec::ops_json(r),"panic":false,"probed":true},
                        "b":{"ops":g.as_ref().map(|o| rec::ops_json(o)).unwrap_or(json!([])),"panic":g.is_none(),"probed":true}}));
                };
                for (via, g) in &got {
                    emit(via, &reference, g);
                }
                emit("real_raw_far_after_expiry", &raw_ref, &raw_got);
            }
        }
    }
}

/// deadlines / timeouts configured on the builder and on capture_diff_deadline reach the algorithm
fn drive_plumbing(a: &Args, out: &mut Out, rng: &mut Rng) {
    drive_timeout_reuse(out);
    drive_real_sequences(out, rng);
    let thorough = a.thorough();
    let n = if thorough { 300 } else { 40 };
    for i in 0..n {
        // token counts on both sides of the 100-token switch
        let len = if i % 2 == 0 { rng.range(4, 40) } else { rng.range(95, 130) };
        let (x, y) = if i % 4 == 3 {
            hard_gap_pair(rng, 3, len / 3)
        } else {
            let alpha = *rng.pick(&[3u32, 8, 200]);
            let x: Vec<u32> = (0..len).map(|_| rng.below(alpha as usize) as u32).collect();
            let e = rng.range(1, 6);
            let y = gen::mutate(rng, &x, e, alpha);
            (x, y)
        };
        for alg in ALGS {
            // reference: the algorithm-level call through the documented pipeline
            let refc = OCase {
                alg,
                old: x.clone(),
                new: y.clone(),
                os: 0,
                oe: x.len(),
                ns: 0,
                ne: y.len(),
                entry: "slices",
                fuel: -1,
            };
            let never = fam_o::exec(&refc, false);
            let p = never.probes.max(1) as usize;
            let mut ks = vec![0i64, (p / 2) as i64, -1];
            ks.dedup();
            for k in ks {
                let mut rc = refc.clone();
                rc.fuel = k;
                let r = fam_o::exec(&rc, false);
                let ref_json = json!({"ops": r.ops.as_ref().map(|o| rec::ops_json(o)).unwrap_or(json!([])), "panic": r.ops.is_none(), "probed": r.probes > 0});
                let mut vias = vec!["textdiff_deadline", "textdiff_timeout", "textdiff_lines_deadline"];
                if k == 0 {
                    vias.push("real_expired");
                }
                if k == -1 {
                    // compared with the never-expiring reference: no probe may be answered "expired"
                    vias.push("textdiff_timeout_max");
                    vias.push("textdiff_timeout_huge");
                }
                for via in vias {
                    let (ops, probes) = textdiff_ops(alg, &x, &y, via, k);
                    let probed = if via == "real_expired" || via.starts_with("textdiff_timeout_") && via != "textdiff_timeout" {
                        r.probes > 0
                    } else {
                        probes > 0
                    };
                    let case = out.next_case();
                    out.emit(&json!({"ev":"same","case":case,"clause":"plumbing","via":via,"alg":alg_name(alg),
                        "old":seq_json(&x),"new":seq_json(&y),"fuel":k,
                        "a":ref_json,
                        "b":{"ops": ops.as_ref().map(|o| rec::ops_json(o)).unwrap_or(json!([])), "panic": ops.is_none(), "probed": probed}}));
                }
            }
        }
    }
}

pub fn drive_c08(a: &Args, out: &mut Out) {
    let mut rng = Rng::new(a.num("seed", 1));
    let thorough = a.thorough();
    // (8 stacks x every failing call x expiry indices multiply the trace size: the thorough tier
    // widens the exhaustive bound moderately and adds longer random inputs; ~25 M events)
    let pairs = if thorough {
        let mut p = gen::exhaustive_pairs(3, 3);
        p.extend(gen::exhaustive_pairs(2, 4));
        for _ in 0..a.num("nrand", 1200) {
            p.push(gen::random_pair(&mut rng, 30));
        }
        p
    } else {
        pairs_for_faults(a, &mut rng)
    };
    for (i, (x, y)) in pairs.iter().enumerate() {
        let small = x.len() + y.len() <= 6;
        for alg in ALGS {
            let mut streams: std::collections::HashMap<&str, Vec<Vec<i64>>> = Default::default();
            for stack in STACKS {
                if !small && !thorough && (i % 3 != 0) && stack != "none" && stack != "compact_replace" {
                    continue;
                }
                let mut c = HCase::simple(alg, x, y);
                c.stack = stack;
                let r = run_case(&c, out);
                let calls = r.events.iter().filter(|e| e["ev"] != "probe").count();
                streams.insert(stack, stream_tuples(&r.events));
                // every failing call index
                let ks: Vec<i64> = if small || thorough {
                    (0..calls as i64).collect()
                } else {
                    let mut ks = vec![0, calls as i64 - 1, rng.below(calls.max(1)) as i64];
                    ks.sort();
                    ks.dedup();
                    ks
                };
                for k in ks {
                    let mut cf = c.clone();
                    cf.fail_at = k;
                    run_case(&cf, out);
                }
                // product with an expiry index: the fallback paths must propagate errors too
                if i % 2 == 0 || thorough {
                    let mut cn = c.clone();
                    cn.fuel = -1;
                    let p = exec(&cn).probes as usize;
                    for fuel in fuels(p, 3, &mut rng) {
                        let mut ce = c.clone();
                        ce.fuel = fuel;
                        let calls = exec(&ce).events.iter().filter(|e| e["ev"] != "probe").count();
                        for k in 0..calls as i64 {
                            let mut cf = ce.clone();
                            cf.fail_at = k;
                            run_case(&cf, out);
                        }
                    }
                }
            }
            let base = json!({"alg":alg_name(alg),"old":seq_json(x),"new":seq_json(y)});
            let mut cmp = |ev: &str, clause: &str, sa: &str, sb: &str| {
                if let (Some(a), Some(b)) = (streams.get(sa), streams.get(sb)) {
                    let case = out.next_case();
                    let mut v = base.clone();
                    v["ev"] = json!(ev);
                    v["case"] = json!(case);
                    v["clause"] = json!(clause);
                    v["a"] = json!(a);
                    v["b"] = json!(b);
                    v["stacks"] = json!([sa, sb]);
                    out.emit(&v);
                }
            };
            cmp("drop4", "nofinish_forward", "none", "nofinish");
            cmp("drop4", "nofinish_forward", "replace", "replace_nofinish");
            cmp("drop4", "nofinish_forward", "replace_nr", "replace_nofinish_nr");
            cmp("same", "mutref_forward", "none", "mutref");
            cmp("same", "mutref_forward", "replace", "replace_ref");
            cmp("expand", "default_replace", "replace", "replace_nr");
            cmp("expand", "default_replace", "compact_replace", "compact_replace_nr");
        }
    }
}
