//! Family O: captured op lists of `capture_diff*` and `TextDiff::ops`.
use crate::fam_h::{alg_name, ALGS};
use crate::gen;
use crate::rec::{self, Item, Window};
use crate::util::{seq_json, Args, Out, Rng};
use serde_json::{json, Value};
use similar::{capture_diff_deadline, capture_diff_slices_deadline, get_diff_ratio, Algorithm, DiffOp, TextDiff};

#[derive(Clone, Debug)]
pub struct OCase {
    pub alg: Algorithm,
    pub old: Vec<u32>,
    pub new: Vec<u32>,
    pub os: usize,
    pub oe: usize,
    pub ns: usize,
    pub ne: usize,
    /// "window" | "slice" (capture_diff with ranges) | "slices" (capture_diff_slices) | "textdiff"
    pub entry: &'static str,
    /// -2 none, -1 virtual never, k >= 0 expiry at probe k
    pub fuel: i64,
}

pub struct OResult {
    pub ops: Option<Vec<DiffOp>>,
    pub ratio: Option<f32>,
    pub probes: i64,
    pub swaps: usize,
    /// the op list as the compaction stage received it (first `begin` step of the cleanup tracer)
    pub raw: Option<Vec<DiffOp>>,
}

fn token_strings(xs: &[u32]) -> Vec<String> {
    xs.iter().map(|x| format!("t{}\n", x)).collect()
}

pub fn exec(c: &OCase, repair: bool) -> OResult {
    rec::reset_cmps();
    if c.fuel >= -1 {
        rec::install_clock(c.fuel, false);
    } else {
        rec::install_hostile_clock(); // no deadline is passed: the clock must be unobservable
    }
    similar::verif_hooks::set_swap_repair(repair);
    let _ = similar::verif_hooks::take_swap_count();
    let raw_cell: std::rc::Rc<std::cell::RefCell<Option<Vec<DiffOp>>>> = Default::default();
    {
        let rc = raw_cell.clone();
        similar::verif_hooks::install_cleanup_tracer(Some(Box::new(move |arm, _ptr, ops| {
            if arm == "begin" && rc.borrow().is_none() {
                *rc.borrow_mut() = Some(ops.to_vec());
            }
        })));
    }
    let deadline = if c.fuel == -2 {
        None
    } else {
        Some(rec::far_future())
    };
    let r = rec::guarded(|| match c.entry {
        "window" => {
            let old = Window {
                data: rec::items(&c.old),
                lo: c.os,
                hi: c.oe,
            };
            let new = Window {
                data: rec::items(&c.new),
                lo: c.ns,
                hi: c.ne,
            };
            let ops = capture_diff_deadline(c.alg, &old, c.os..c.oe, &new, c.ns..c.ne, deadline);
            let ratio = get_diff_ratio(&ops, c.oe - c.os, c.ne - c.ns);
            (ops, ratio)
        }
        "slice" => {
            let old = rec::items(&c.old);
            let new = rec::items(&c.new);
            let ops = capture_diff_deadline::<[Item], [Item]>(
                c.alg,
                &old[..],
                c.os..c.oe,
                &new[..],
                c.ns..c.ne,
                deadline,
            );
            let ratio = get_diff_ratio(&ops, c.oe - c.os, c.ne - c.ns);
            (ops, ratio)
        }
        "alias" => {
            // the same object passed as old and as new (c.old == c.new), two windows of it
            let buf = rec::items(&c.old);
            let ops = capture_diff_deadline::<[Item], [Item]>(c.alg, &buf[..], c.os..c.oe, &buf[..], c.ns..c.ne, deadline);
            let ratio = get_diff_ratio(&ops, c.oe - c.os, c.ne - c.ns);
            (ops, ratio)
        }
        "identify" => {
            // the documented IdentifyDistinct recipe: integer ids for the items, lookups and ranges
            // that keep the caller's indices
            let old = rec::items(&c.old);
            let new = rec::items(&c.new);
            let h = similar::algorithms::IdentifyDistinct::<u32>::new(&old[..], c.os..c.oe, &new[..], c.ns..c.ne);
            let ops = capture_diff_deadline(c.alg, h.old_lookup(), h.old_range(), h.new_lookup(), h.new_range(), deadline);
            let ratio = get_diff_ratio(&ops, c.oe - c.os, c.ne - c.ns);
            (ops, ratio)
        }
        "hetero" => {
            // old and new of different element types (equal values hash differently across them)
            let old: Vec<rec::OldT> = c.old.iter().map(|v| rec::OldT(*v)).collect();
            let new: Vec<rec::NewT> = c.new.iter().map(|v| rec::NewT(*v)).collect();
            let ops = capture_diff_deadline::<[rec::OldT], [rec::NewT]>(c.alg, &old[..], c.os..c.oe, &new[..], c.ns..c.ne, deadline);
            let ratio = get_diff_ratio(&ops, c.oe - c.os, c.ne - c.ns);
            (ops, ratio)
        }
        "slices_weakhash" | "slices_consthash" => {
            // items whose legal Hash collides for unequal values (same equalities as the u32 items)
            let ops = if c.entry == "slices_weakhash" {
                let old: Vec<rec::WeakHash> = c.old[c.os..c.oe].iter().map(|v| rec::WeakHash(*v)).collect();
                let new: Vec<rec::WeakHash> = c.new[c.ns..c.ne].iter().map(|v| rec::WeakHash(*v)).collect();
                capture_diff_slices_deadline(c.alg, &old, &new, deadline)
            } else {
                let old: Vec<rec::ConstHash> = c.old[c.os..c.oe].iter().map(|v| rec::ConstHash(*v)).collect();
                let new: Vec<rec::ConstHash> = c.new[c.ns..c.ne].iter().map(|v| rec::ConstHash(*v)).collect();
                capture_diff_slices_deadline(c.alg, &old, &new, deadline)
            };
            let ratio = get_diff_ratio(&ops, c.oe - c.os, c.ne - c.ns);
            (ops, ratio)
        }
        "slices" => {
            let old = rec::items(&c.old[c.os..c.oe]);
            let new = rec::items(&c.new[c.ns..c.ne]);
            let ops = capture_diff_slices_deadline(c.alg, &old, &new, deadline);
            let ratio = get_diff_ratio(&ops, old.len(), new.len());
            (ops, ratio)
        }
        "textdiff_ci" => {
            // tokens of a user-defined DiffableStr type whose == ignores ASCII case; every token
            // gets a random case, so equal tokens are rarely identical
            let mut flip = (c.old.len() * 31 + c.new.len()) as u32;
            let mut tok = |x: &u32| -> String {
                flip = flip.wrapping_mul(1664525).wrapping_add(1013904223);
                if flip & 0x10000 != 0 {
                    format!("T{}\n", x)
                } else {
                    format!("t{}\n", x)
                }
            };
            let old: Vec<String> = c.old[c.os..c.oe].iter().map(&mut tok).collect();
            let new: Vec<String> = c.new[c.ns..c.ne].iter().map(&mut tok).collect();
            let o: Vec<&crate::ci::Ci> = old.iter().map(|s| crate::ci::Ci::new(s.as_str())).collect();
            let n: Vec<&crate::ci::Ci> = new.iter().map(|s| crate::ci::Ci::new(s.as_str())).collect();
            let mut cfg = TextDiff::configure();
            cfg.algorithm(c.alg);
            if let Some(d) = deadline {
                cfg.deadline(d);
            }
            let diff = cfg.diff_slices(&o, &n);
            (diff.ops().to_vec(), diff.ratio())
        }
        "textdiff" => {
            let old = token_strings(&c.old[c.os..c.oe]);
            let new = token_strings(&c.new[c.ns..c.ne]);
            let o: Vec<&str> = old.iter().map(|s| s.as_str()).collect();
            let n: Vec<&str> = new.iter().map(|s| s.as_str()).collect();
            let mut cfg = TextDiff::configure();
            cfg.algorithm(c.alg);
            if let Some(d) = deadline {
                cfg.deadline(d);
            }
            let diff = cfg.diff_slices(&o, &n);
            (diff.ops().to_vec(), diff.ratio())
        }
        e => panic!("unknown entry {}", e),
    });
    let probes = if c.fuel >= -1 { rec::probes() } else { 0 };
    rec::remove_clock();
    similar::verif_hooks::install_cleanup_tracer(None);
    let raw = raw_cell.borrow_mut().take();
    similar::verif_hooks::set_swap_repair(false);
    let swaps = similar::verif_hooks::take_swap_count();
    match r {
        Some((ops, ratio)) => OResult {
            ops: Some(ops),
            ratio: Some(ratio),
            probes,
            swaps,
            raw,
        },
        None => OResult {
            ops: None,
            ratio: None,
            probes,
            swaps,
            raw,
        },
    }
}

/// ops of entries that work on extracted slices are relative to the slice: shift them back
fn base_shift(c: &OCase) -> (usize, usize) {
    match c.entry {
        "slices" | "textdiff" | "textdiff_ci" | "slices_weakhash" | "slices_consthash" => (c.os, c.ns),
        _ => (0, 0),
    }
}

pub fn shifted_ops_json(ops: &[DiffOp], so: usize, sn: usize) -> Value {
    Value::Array(
        ops.iter()
            .map(|op| {
                let mut v = rec::op_json(op);
                let a = v.as_array_mut().unwrap();
                a[1] = json!(a[1].as_u64().unwrap() + so as u64);
                a[3] = json!(a[3].as_u64().unwrap() + sn as u64);
                v
            })
            .collect(),
    )
}

/// the ops the same call produces without the compaction stage (Replace + Capture only)
fn uncompacted(c: &OCase) -> Option<Vec<DiffOp>> {
    if c.fuel >= -1 {
        rec::install_clock(c.fuel, false);
    }
    let deadline = if c.fuel == -2 {
        None
    } else {
        Some(rec::far_future())
    };
    let r = rec::guarded(|| {
        let old = rec::items(&c.old);
        let new = rec::items(&c.new);
        let mut d = similar::algorithms::Replace::new(similar::algorithms::Capture::new());
        similar::algorithms::diff_deadline::<[Item], [Item], _>(
            c.alg,
            &mut d,
            &old[..],
            c.os..c.oe,
            &new[..],
            c.ns..c.ne,
            deadline,
        )
        .unwrap();
        d.into_inner().into_ops()
    });
    rec::remove_clock();
    r
}

pub fn record(c: &OCase, case: i64) -> Value {
    let plain = exec(c, false);
    let rep = exec(c, true);
    let (so, sn) = base_shift(c);
    let unc = uncompacted(c);
    let mut v = json!({"ev":"ops","case":case,"entry":c.entry,"alg":alg_name(c.alg),
        "old":seq_json(&c.old),"new":seq_json(&c.new),"os":c.os,"oe":c.oe,"ns":c.ns,"ne":c.ne,
        "fuel":c.fuel,"probes":plain.probes,"swaps":plain.swaps});
    match (&plain.ops, plain.ratio) {
        (Some(ops), Some(ratio)) => {
            v["panic"] = json!(false);
            v["ops"] = shifted_ops_json(ops, so, sn);
            // what the compaction stage was handed (for the attribution of known finding KF-1);
            // only for ordinary sizes
            if let Some(raw) = &plain.raw {
                if raw.len() <= 400 {
                    v["raw"] = shifted_ops_json(raw, so, sn);
                }
            }
            // the same ops read through the public accessors (C11 observes the ops through them)
            let tagn = |t: similar::DiffTag| match t {
                similar::DiffTag::Equal => 0,
                similar::DiffTag::Delete => 1,
                similar::DiffTag::Insert => 2,
                similar::DiffTag::Replace => 3,
            };
            v["acc"] = Value::Array(
                ops.iter()
                    .map(|op| {
                        let (t, or, nr) = op.as_tag_tuple();
                        json!([tagn(t), or.start + so, or.end - or.start, nr.start + sn, nr.end - nr.start])
                    })
                    .collect(),
            );
            v["acc2"] = Value::Array(
                ops.iter()
                    .map(|op| {
                        let (or, nr) = (op.old_range(), op.new_range());
                        json!([tagn(op.tag()), or.start + so, or.end - or.start, nr.start + sn, nr.end - nr.start])
                    })
                    .collect(),
            );
            v["cc"] = json!(match &unc {
                Some(u) => shifted_ops_json(u, 0, 0) != v["ops"],
                None => false,
            });
            let r = ratio as f64;
            v["ratio_u"] = json!((r * 1e6).round() as i64);
            v["ratio_one"] = json!(ratio == 1.0);
            v["ratio_in01"] = json!((0.0..=1.0).contains(&ratio));
        }
        _ => {
            v["panic"] = json!(true);
            v["ops"] = json!([]);
            v["ratio_u"] = json!(0);
            v["ratio_one"] = json!(false);
            v["ratio_in01"] = json!(false);
        }
    }
    match &rep.ops {
        Some(ops) => {
            v["rep_panic"] = json!(false);
            v["ops_rep"] = shifted_ops_json(ops, so, sn);
        }
        None => {
            v["rep_panic"] = json!(true);
            v["ops_rep"] = json!([]);
        }
    }
    v
}

pub fn from_json(v: &Value) -> OCase {
    let seq = |k: &str| -> Vec<u32> {
        v[k].as_array()
            .unwrap()
            .iter()
            .map(|x| x.as_u64().unwrap() as u32)
            .collect()
    };
    let u = |k: &str| v[k].as_u64().unwrap() as usize;
    let entry = match v["entry"].as_str().unwrap() {
        "window" => "window",
        "slice" => "slice",
        "slices" => "slices",
        "slices_weakhash" => "slices_weakhash",
        "slices_consthash" => "slices_consthash",
        "hetero" => "hetero",
        "alias" => "alias",
        "identify" => "identify",
        "textdiff_ci" => "textdiff_ci",
        _ => "textdiff",
    };
    OCase {
        alg: crate::fam_h::alg_from(v["alg"].as_str().unwrap()),
        old: seq("old"),
        new: seq("new"),
        os: u("os"),
        oe: u("oe"),
        ns: u("ns"),
        ne: u("ne"),
        entry,
        fuel: v["fuel"].as_i64().unwrap(),
    }
}

fn emit_with_fuels(c: &OCase, out: &mut Out, rng: &mut Rng, max_fuels: usize) {
    let case = out.next_case();
    out.emit(&record(c, case));
    if max_fuels == 0 {
        return;
    }
    // how many probes does the run make with a deadline that never expires?
    let mut cn = c.clone();
    cn.fuel = -1;
    let never = exec(&cn, false);
    let case = out.next_case();
    out.emit(&record(&cn, case));
    let p = never.probes as usize;
    let ks: Vec<usize> = if p <= max_fuels {
        (0..p).collect()
    } else {
        let mut ks = vec![0, 1, p - 1];
        while ks.len() < max_fuels {
            ks.push(rng.below(p));
        }
        ks.sort();
        ks.dedup();
        ks
    };
    for k in ks {
        let mut ck = c.clone();
        ck.fuel = k as i64;
        let case = out.next_case();
        out.emit(&record(&ck, case));
    }
}

/// all algorithms x pairs x {whole via slices / textdiff, sub-range via window / slice}
/// x deadline {none, never, every expiry index}
pub fn drive_ops(a: &Args, out: &mut Out) {
    let mut rng = Rng::new(a.num("seed", 1));
    let thorough = a.thorough();
    let with_deadline = a.get("deadline", "1") == "1";
    let mut pairs = if thorough {
        let mut p = gen::exhaustive_pairs(3, 4);
        p.extend(gen::exhaustive_pairs(2, 6));
        p
    } else {
        gen::exhaustive_pairs(3, 3)
    };
    let (nrand, maxlen) = if thorough { (20000, 40) } else { (3000, 24) };
    for _ in 0..a.num("nrand", nrand) {
        pairs.push(gen::random_pair(&mut rng, maxlen));
    }
    for k in 0..(if thorough { 600 } else { 60 }) {
        let (x, y) = gen::runny_ints(&mut rng);
        if k % 10 == 0 {
            // identical long inputs (more than 100 items)
            pairs.push((x.clone(), x.clone()));
        }
        pairs.push((x, y));
    }
    for _ in 0..(if thorough { 1500 } else { 150 }) {
        pairs.push(gen::anchor_heavy(&mut rng));
    }
    // exhaustive small scope, one representative per relabelling class, whole slices, no deadline
    if a.get("exh", "1") == "1" {
        for (x, y) in gen::canonical_pairs(3, if thorough { 6 } else { 5 }) {
            if x.len().max(y.len()) <= 3 {
                continue; // already in `pairs` with every variant
            }
            for alg in ALGS {
                let c = OCase {
                    alg,
                    old: x.clone(),
                    new: y.clone(),
                    os: 0,
                    oe: x.len(),
                    ns: 0,
                    ne: y.len(),
                    entry: "slices",
                    fuel: -2,
                };
                let case = out.next_case();
                out.emit(&record(&c, case));
            }
        }
    }
    // scale: more distinct tokens than 16 bits can number, with the longer side below / above
    // 65 535 tokens (TextDiff maps tokens to integers above 100 tokens)
    if a.get("big", "1") == "1" {
        let t: Vec<u32> = (10_000..73_000).collect(); // 63 000 common lines
        let a1: Vec<u32> = (0..1500).collect();
        let b1: Vec<u32> = (80_000..81_500).collect();
        let cat = |h: &Vec<u32>, t: &Vec<u32>| -> Vec<u32> { h.iter().chain(t.iter()).cloned().collect() };
        let mut bigs = vec![(cat(&a1, &t), cat(&b1, &t))];
        let l: Vec<u32> = (0..65_536).collect();
        let mut o = l.clone();
        o.push(99_999);
        let mut n = l.clone();
        n.push(0);
        bigs.push((o, n));
        // pairwise distinct items with one short shared block: cheap even for the quadratic LCS
        // table (only non-zero cells are stored): 4 200 x 4 200 and 6 000 x 3 000 middle parts
        for (lo, ln) in [(4200u32, 4200u32), (6000, 3000)] {
            let mut o: Vec<u32> = (200_000..200_000 + lo).collect();
            let mut n2: Vec<u32> = (300_000..300_000 + ln).collect();
            let (po, pn) = (rng.below(lo as usize / 2), rng.below(ln as usize / 2));
            for k in 0..40u32 {
                o.insert(po + k as usize, 400_000 + k);
                n2.insert(pn + k as usize, 400_000 + k);
            }
            for alg in [Algorithm::Lcs, Algorithm::Myers] {
                let c = OCase {
                    alg,
                    old: o.clone(),
                    new: n2.clone(),
                    os: 0,
                    oe: o.len(),
                    ns: 0,
                    ne: n2.len(),
                    entry: "slices",
                    fuel: -2,
                };
                let case = out.next_case();
                out.emit(&record(&c, case));
            }
        }
        // many hunks: hundreds to thousands of raw ops buffered in one diff
        // (a stage that would work in batches of a few hundred or thousand ops meets a different,
        // randomly shaped hunk at its batch boundary in every case)
        let mut counts: Vec<usize> = vec![150, 345];
        for _ in 0..(if thorough { 200 } else { 24 }) {
            counts.push(rng.range(600, 1500));
        }
        if thorough {
            counts.extend([2800, 4500, 6000]);
        }
        for (bi, blocks) in counts.iter().enumerate() {
            let (x, y) = gen::many_hunks(&mut rng, *blocks);
            for alg in ALGS {
                if (alg == Algorithm::Lcs && *blocks > 150) || (alg == Algorithm::Patience && bi % 4 != 0) {
                    continue;
                }
                let c = OCase {
                    alg,
                    old: x.clone(),
                    new: y.clone(),
                    os: 0,
                    oe: x.len(),
                    ns: 0,
                    ne: y.len(),
                    entry: if bi % 3 != 2 { "slices" } else { "textdiff" },
                    fuel: -2,
                };
                let case = out.next_case();
                out.emit(&record(&c, case));
            }
        }
        // long runs: an inserted / deleted block that can slide thousands of steps
        let mut runs: Vec<(Vec<u32>, Vec<u32>)> = vec![];
        for l in [4095usize, 4096, 4097, rng.range(5000, 9000)] {
            let run = vec![7u32; l];
            let mut longer = run.clone();
            longer.push(7);
            runs.push((run.clone(), longer.clone()));
            runs.push((longer.clone(), run.clone()));
            let fence = |v: &Vec<u32>| -> Vec<u32> { std::iter::once(1).chain(v.iter().cloned()).chain(std::iter::once(2)).collect() };
            runs.push((fence(&run), fence(&longer)));
            let per: Vec<u32> = (0..l).flat_map(|_| [5u32, 6]).collect();
            let mut per2 = per.clone();
            per2.extend([5, 6]);
            runs.push((fence(&per), fence(&per2)));
            runs.push((fence(&per2), fence(&per)));
        }
        for (i, (x, y)) in runs.iter().enumerate() {
            for alg in ALGS {
                let c = OCase {
                    alg,
                    old: x.clone(),
                    new: y.clone(),
                    os: 0,
                    oe: x.len(),
                    ns: 0,
                    ne: y.len(),
                    entry: if i % 2 == 0 { "slices" } else { "textdiff" },
                    fuel: -2,
                };
                let case = out.next_case();
                out.emit(&record(&c, case));
            }
        }
        for (x, y) in bigs {
            for alg in [Algorithm::Myers, Algorithm::Patience] {
                let c = OCase {
                    alg,
                    old: x.clone(),
                    new: y.clone(),
                    os: 0,
                    oe: x.len(),
                    ns: 0,
                    ne: y.len(),
                    entry: "textdiff",
                    fuel: -2,
                };
                let case = out.next_case();
                out.emit(&record(&c, case));
            }
        }
    }
    for (i, (x, y)) in pairs.iter().enumerate() {
        for alg in ALGS {
            let whole = OCase {
                alg,
                old: x.clone(),
                new: y.clone(),
                os: 0,
                oe: x.len(),
                ns: 0,
                ne: y.len(),
                entry: if i % 3 == 0 { "textdiff" } else { "slices" },
                fuel: -2,
            };
            let nf = if with_deadline { if x.len() + y.len() <= 8 { 64 } else { 6 } } else { 0 };
            emit_with_fuels(&whole, out, &mut rng, nf);
            let (po, os, oe, pn, ns, ne) = gen::pad(&mut rng, x, y, 2);
            let sub = OCase {
                alg,
                old: po,
                new: pn,
                os,
                oe,
                ns,
                ne,
                entry: if i % 2 == 0 { "window" } else { "slice" },
                fuel: -2,
            };
            let nf = if with_deadline && i % 4 == 0 { 4 } else { 0 };
            emit_with_fuels(&sub, out, &mut rng, nf);
            if i % 3 == 1 {
                let mut wh = whole.clone();
                wh.entry = if i % 2 == 0 { "slices_weakhash" } else { "slices_consthash" };
                emit_with_fuels(&wh, out, &mut rng, 0);
            }
            if i % 3 == 2 {
                let mut ht = if i % 2 == 0 { whole.clone() } else { sub.clone() };
                ht.entry = "hetero";
                emit_with_fuels(&ht, out, &mut rng, 0);
            }
            if i % 3 == 1 {
                let mut id = sub.clone();
                id.entry = "identify";
                emit_with_fuels(&id, out, &mut rng, 0);
            }
            if i % 6 == 4 || (x.len().max(y.len()) > 100 && alg == Algorithm::Myers) {
                let mut ci = whole.clone();
                ci.entry = "textdiff_ci";
                emit_with_fuels(&ci, out, &mut rng, 0);
            }
            if i % 3 == 0 {
                let mut buf = x.clone();
                buf.extend(y.iter().cloned());
                let mut al = whole.clone();
                al.entry = "alias";
                al.old = buf.clone();
                al.new = buf.clone();
                if i % 2 == 0 {
                    al.oe = x.len();
                    al.ns = x.len();
                    al.ne = buf.len();
                } else {
                    let l = rng.below(buf.len() + 1);
                    al.os = rng.below(buf.len() - l + 1);
                    al.oe = al.os + l;
                    al.ns = rng.below(buf.len() - l + 1);
                    al.ne = al.ns + l;
                }
                emit_with_fuels(&al, out, &mut rng, 0);
            }
        }
    }
}
