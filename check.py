#!/usr/bin/env python3
"""Orchestrator for the TLA+-based verification of mitsuhiko/similar.

  check.py <Cxx> --tier quick|thorough      decide one property
  check.py <Cxx> --replay <file>            re-run one recorded case
  check.py --setup                          build harness, parse all specs
  check.py --selftest                       binding self-test (corrupt a trace)

Exit codes: 0 property held on everything explored (KNOWN-FINDING lines allowed),
            1 violation (a line `VIOLATION property=<id> replay=<path>` is printed),
            2 tool error / timeout of the machinery itself.

Verdict rule (DESIGN.md 2.3): a violation is reported iff a trace recorded from
the real code is rejected by the Tier-A specification of the property and the
rejection is not attributed to a listed known finding.
"""
import sys

sys.dont_write_bytecode = True
from lib import core  # noqa: E402

if __name__ == "__main__":
    sys.exit(core.main(sys.argv[1:]))
