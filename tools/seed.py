#!/usr/bin/env python3
"""Handling of seeded (sub-agent produced) breaking changes.

  seed.py collect <worktree> <name> <property>   verify the change in its worktree and store it under /verif/seeded/<name>/
  seed.py detect <name> [props...]               apply to /repo, run the quick checks, undo; record what fired
"""
import json
import os
import shutil
import subprocess
import sys
import time
from pathlib import Path

VERIF = Path(__file__).resolve().parent.parent
SEEDED = VERIF / "seeded"


def sh(cmd, cwd=None, timeout=3600):
    p = subprocess.run(cmd, shell=True, cwd=cwd, capture_output=True, text=True, timeout=timeout)
    return p.returncode, p.stdout + p.stderr


def collect(wt, name, prop):
    wt = Path(wt)
    d = SEEDED / name
    d.mkdir(parents=True, exist_ok=True)
    demo = wt / "tests" / "demo.rs"
    assert demo.exists(), "no tests/demo.rs"
    rc, diff = sh("git diff -- src", cwd=wt)
    assert diff.strip(), "no source change"
    ran = []
    # existing suite with the change (demo moved aside)
    aside = wt / "demo.rs.aside"
    shutil.move(demo, aside)
    try:
        rc1, o1 = sh("cargo test --offline 2>&1 | grep -E '^test result|FAILED|error(\\[|:)' ", cwd=wt)
        rc2, o2 = sh("cargo test --offline --all-features 2>&1 | grep -E '^test result|FAILED|error(\\[|:)'", cwd=wt)
    finally:
        shutil.move(aside, demo)
    suite_ok = "FAILED" not in o1 + o2 and "error" not in o1 + o2 and "test result: ok" in o1 and "test result: ok" in o2
    ran.append({"cmd": "cargo test --offline ; cargo test --offline --all-features (change applied, demo aside)",
                "ok": suite_ok, "out": (o1 + o2).strip().splitlines()})
    feats = "--all-features"
    rc3, o3 = sh(f"cargo test --offline {feats} --test demo 2>&1 | grep -E '^test result|^test .* (FAILED|ok)|error(\\[|:)'", cwd=wt)
    import re
    demo_fails = "FAILED" in o3 or bool(re.search(r"[1-9][0-9]* failed", o3)) or "error" in o3
    ran.append({"cmd": f"cargo test --offline {feats} --test demo (change applied)", "fails": demo_fails,
                "out": o3.strip().splitlines()[-8:]})
    sh("git stash", cwd=wt)
    try:
        rc4, o4 = sh(f"cargo test --offline {feats} --test demo 2>&1 | grep -E '^test result|^test .* (FAILED|ok)|error(\\[|:)'", cwd=wt)
    finally:
        sh("git stash pop", cwd=wt)
    demo_passes = "test result: ok" in o4 and "FAILED" not in o4
    ran.append({"cmd": f"cargo test --offline {feats} --test demo (change stashed)", "passes": demo_passes,
                "out": o4.strip().splitlines()[-8:]})
    ok = suite_ok and demo_fails and demo_passes
    (d / "patch.diff").write_text(diff)
    shutil.copy(demo, d / "demo.rs")
    if (wt / "DESCRIPTION.md").exists():
        shutil.copy(wt / "DESCRIPTION.md", d / "DESCRIPTION.md")
    meta = {"name": name, "property": prop, "confirmed": ok, "suite_passes_with_change": suite_ok,
            "demo_fails_with_change": demo_fails, "demo_passes_without_change": demo_passes,
            "files": sorted({l[6:] for l in diff.splitlines() if l.startswith("+++ b/")}),
            "ran": ran, "collected_at": time.strftime("%Y-%m-%d %H:%M:%S")}
    (d / "meta.json").write_text(json.dumps(meta, indent=1) + "\n")
    print(name, "confirmed" if ok else "NOT CONFIRMED", json.dumps({k: meta[k] for k in
          ("suite_passes_with_change", "demo_fails_with_change", "demo_passes_without_change")}))
    return ok


def detect(name, props, inplace=False):
    """Run the quick check(s) against the seeded change.  Default: in a scratch worktree of /repo
    (VERIF_REPO development override), so /repo is never touched and several detections can run
    side by side; --inplace applies the patch to /repo itself and undoes it afterwards."""
    d = SEEDED / name
    meta = json.load(open(d / "meta.json"))
    props = props or [meta["property"]]
    env = dict(os.environ)
    if inplace:
        rc, st = sh("git status --porcelain", cwd="/repo")
        assert not st.strip(), "/repo is dirty: " + st
        rc, o = sh(f"git apply {d/'patch.diff'}", cwd="/repo")
        assert rc == 0, "patch does not apply: " + o
    else:
        wt = Path("/tmp/sv_detect") / name
        sh(f"git worktree remove --force {wt}", cwd="/repo")
        wt.parent.mkdir(parents=True, exist_ok=True)
        rc, o = sh(f"git worktree add --detach {wt} HEAD", cwd="/repo")
        assert rc == 0, o
        rc, o = sh(f"git apply {d/'patch.diff'}", cwd=wt)
        assert rc == 0, "patch does not apply: " + o
        env["VERIF_REPO"] = str(wt)
    res = {}
    try:
        for p in props:
            t0 = time.time()
            pr = subprocess.run(["python3", "check.py", p, "--tier", "quick"], cwd=VERIF, env=env, capture_output=True, text=True)
            rc, o = pr.returncode, pr.stdout + pr.stderr
            lines = [l for l in o.splitlines() if l.startswith(("VIOLATION", "KNOWN-FINDING", "OK ", "TOOL"))]
            res[p] = {"exit": rc, "wall_s": round(time.time() - t0, 1),
                      "lines": [l[:300] for l in lines[:6]]}
            first = next((l for l in lines if l.startswith("VIOLATION")), lines[0] if lines else o[-300:])
            print(name, p, "exit", rc, first[:200], flush=True)
    finally:
        if inplace:
            sh("git checkout -- .", cwd="/repo")
            rc, st = sh("git status --porcelain", cwd="/repo")
            assert not st.strip(), "could not restore /repo: " + st
        else:
            sh(f"git worktree remove --force {wt}", cwd="/repo")
            import hashlib
            shutil.rmtree(VERIF / "work" / ("alt_" + hashlib.sha1(str(wt).encode()).hexdigest()[:8]), ignore_errors=True)
    meta.setdefault("detection", {}).update(res)
    meta["detected_by"] = sorted(p for p, r in meta["detection"].items() if r["exit"] == 1)
    (d / "meta.json").write_text(json.dumps(meta, indent=1) + "\n")
    return res


if __name__ == "__main__":
    if sys.argv[1] == "collect":
        sys.exit(0 if collect(sys.argv[2], sys.argv[3], sys.argv[4]) else 1)
    elif sys.argv[1] == "detect":
        args = [a for a in sys.argv[2:] if a != "--inplace"]
        detect(args[0], args[1:], inplace="--inplace" in sys.argv)
