#!/usr/bin/env python3
"""Regenerates the machine-written part of DESIGN.md (between the AUTOGEN markers): the table of
seeded breaking changes and which checks catch them, from /verif/seeded/*/meta.json."""
import json
from pathlib import Path

VERIF = Path(__file__).resolve().parent.parent
BEGIN, END = "<!-- AUTOGEN:SEEDED BEGIN -->", "<!-- AUTOGEN:SEEDED END -->"


def main():
    rows = []
    for d in sorted((VERIF / "seeded").iterdir()):
        m = json.load(open(d / "meta.json"))
        desc = ""
        if (d / "DESCRIPTION.md").exists():
            txt = (d / "DESCRIPTION.md").read_text()
        det = m.get("detection", {})
        caught = ", ".join(f"{p}" for p, r in sorted(det.items()) if r["exit"] == 1) or "-"
        missed = ", ".join(f"{p}" for p, r in sorted(det.items()) if r["exit"] == 0) or ""
        clause = ""
        for p, r in det.items():
            for l in r.get("lines", []):
                if l.startswith("VIOLATION") and "clause(s)" in l:
                    clause = l.split("clause(s)")[-1].strip()
                    break
                if l.startswith("VIOLATION") and "#" in l:
                    clause = l.split("#")[-1].strip()[:60]
                    break
            if clause:
                break
        rows.append((m["name"], m["property"], ", ".join(m.get("files", [])), m.get("needs", ""),
                     "yes" if m.get("confirmed") else "NO", caught, clause, m.get("note", "")))
    lines = [BEGIN, "", "| seeded change | property | file(s) | needs to manifest | confirmed | caught by quick check of | rejected clause | note |",
             "|---|---|---|---|---|---|---|---|"]
    for r in rows:
        lines.append("| " + " | ".join(str(x).replace("|", "\\|") for x in r) + " |")
    lines += ["", END]
    p = VERIF / "DESIGN.md"
    s = p.read_text()
    if BEGIN in s:
        a, b = s.index(BEGIN), s.index(END) + len(END)
        s = s[:a] + "\n".join(lines) + s[b:]
    else:
        s += "\n" + "\n".join(lines) + "\n"
    p.write_text(s)
    print(len(rows), "seeded changes listed")


if __name__ == "__main__":
    main()
