#!/usr/bin/env python3
"""First-order mutation sample of mitsuhiko/similar (development aid, not a registered check).

  mutate.py gen   <outdir> [per_file]       write candidate mutants (one patch each) for the library sources
  mutate.py filter <outdir> <worker> <nworkers>
                                            keep the candidates that build and pass the crate's own
                                            tests (default and all features) in a scratch worktree
  mutate.py run   <outdir> <worker> <nworkers>
                                            run the quick checks anchored in the mutated file against
                                            every survivor (VERIF_REPO scratch worktree), record result

Operators: relational flips, +1/-1, && / ||, start/end swaps, early-return deletion."""
import json
import os
import re
import subprocess
import sys
from pathlib import Path

VERIF = Path(__file__).resolve().parent.parent
REPO = Path("/repo")

FILES = {
    "src/algorithms/myers.rs": ["C01", "C03", "C07", "C19"],
    "src/algorithms/patience.rs": ["C01", "C15", "C07", "C08"],
    "src/algorithms/lcs.rs": ["C01", "C03", "C07"],
    "src/algorithms/compact.rs": ["C09", "C10", "C02", "C11"],
    "src/algorithms/replace.rs": ["C10", "C08", "C02"],
    "src/algorithms/capture.rs": ["C02", "C13"],
    "src/algorithms/hook.rs": ["C08", "C13"],
    "src/algorithms/utils.rs": ["C15", "C14", "C01", "C20"],
    "src/algorithms/mod.rs": ["C01", "C07"],
    "src/common.rs": ["C12", "C02", "C03"],
    "src/iter.rs": ["C13", "C04"],
    "src/types.rs": ["C13", "C11", "C09"],
    "src/text/mod.rs": ["C14", "C18", "C04", "C12"],
    "src/text/abstraction.rs": ["C06", "C04", "C20"],
    "src/text/inline.rs": ["C16"],
    "src/text/utils.rs": ["C18", "C16"],
    "src/udiff.rs": ["C05"],
    "src/utils.rs": ["C17"],
    "src/deadline_support.rs": ["C07"],
}

OPS = [
    (r"(?<![<>=!-])<(?![<=])", "<="), (r"<=", "<"), (r"(?<![<>=!-])>(?![>=])", ">="), (r">=", ">"),
    (r"==", "!="), (r"!=", "=="), (r"&&", "||"), (r"\|\|", "&&"),
    (r"\+ 1\b", "- 1"), (r"- 1\b", "+ 1"), (r"\+ 1\b", "+ 0"), (r"- 1\b", "- 0"),
    (r"\.start\b", ".end"), (r"\.end\b", ".start"), (r"\bold_index\b", "new_index"), (r"\bnew_index\b", "old_index"),
    (r"\bold_range\b", "new_range"), (r"\bsuffix_len\b", "prefix_len"),
]


def sh(cmd, cwd=None, timeout=900):
    try:
        p = subprocess.run("timeout -k 5 %d sh -c %s" % (timeout, json.dumps(cmd)), shell=True, cwd=cwd, capture_output=True,
                           text=True, timeout=timeout + 30)
    except subprocess.TimeoutExpired:
        return 124, "error: timeout (hang)"
    if p.returncode == 124:
        return 124, "error: timeout (hang)"
    return p.returncode, p.stdout + p.stderr


def gen(outdir, per_file):
    outdir = Path(outdir)
    outdir.mkdir(parents=True, exist_ok=True)
    n = 0
    for f in FILES:
        lines = (REPO / f).read_text().splitlines(True)
        cands = []
        in_tests = False
        for i, line in enumerate(lines):
            st = line.strip()
            if st.startswith("#[cfg(test)]") or st.startswith("#[test]"):
                in_tests = True
            if in_tests or st.startswith("//") or "similar_verif" in line or "verif_hooks" in line or "debug_assert" in line or st.startswith("#["):
                continue
            if st.startswith(("use ", "pub use ", "fn ", "pub fn ", "impl", "where", "type ", "pub struct", "struct ", "///", "//!")) or "->" in line and st.endswith("{"):
                continue
            for oi, (pat, rep) in enumerate(OPS):
                for m in re.finditer(pat, line):
                    if "<" in pat or ">" in pat:
                        # skip generics / lifetimes / arrows
                        if re.search(r"<\s*(?:[A-Z'&\[(]|usize|u8|u16|u32|u64|isize|str|dyn)", line) or "impl" in line:
                            continue
                        ctx = line[max(0, m.start() - 2):m.end() + 2]
                        if "'" in line and "<'" in line or "->" in ctx or "=>" in ctx or "::<" in line or re.search(r"\w<\w", ctx):
                            continue
                    new = line[:m.start()] + rep + line[m.end():]
                    cands.append((i, oi, m.start(), new))
        # even sample
        if len(cands) > per_file:
            step = len(cands) / per_file
            cands = [cands[int(k * step)] for k in range(per_file)]
        for (i, oi, col, new) in cands:
            d = outdir / f"m{n:04d}"
            d.mkdir(exist_ok=True)
            (d / "meta.json").write_text(json.dumps({"file": f, "line": i + 1, "op": OPS[oi][1], "old": lines[i].rstrip("\n"),
                                                     "new": new.rstrip("\n"), "props": FILES[f]}, indent=1) + "\n")
            n += 1
    print(n, "candidates")


def apply_mutant(wt, meta):
    p = Path(wt) / meta["file"]
    lines = p.read_text().splitlines(True)
    assert lines[meta["line"] - 1].rstrip("\n") == meta["old"], "source moved"
    lines[meta["line"] - 1] = meta["new"] + "\n"
    p.write_text("".join(lines))


def worktree(tag):
    wt = Path(f"/tmp/mutw/{tag}")
    sh(f"git worktree remove --force {wt}", cwd=REPO)
    wt.parent.mkdir(parents=True, exist_ok=True)
    rc, o = sh(f"git worktree add --detach {wt} HEAD", cwd=REPO)
    assert rc == 0, o
    return wt


def filt(outdir, w, nw):
    wt = worktree(f"f{w}")
    ds = sorted(Path(outdir).glob("m*"))
    for k, d in enumerate(ds):
        if k % nw != w:
            continue
        meta = json.loads((d / "meta.json").read_text())
        if "survives" in meta:
            continue
        sh("git checkout -- .", cwd=wt)
        try:
            apply_mutant(wt, meta)
        except AssertionError:
            meta["survives"] = False
            meta["why"] = "source moved"
            (d / "meta.json").write_text(json.dumps(meta, indent=1) + "\n")
            continue
        rc, o = sh("cargo test --offline -q 2>&1 | tail -30", cwd=wt, timeout=180)
        ok = "FAILED" not in o and "error" not in o and "test result: ok" in o and "panicked" not in o
        if ok:
            rc, o = sh("cargo test --offline --all-features -q 2>&1 | tail -30", cwd=wt, timeout=180)
            ok = "FAILED" not in o and "error" not in o and "test result: ok" in o and "panicked" not in o
        meta["survives"] = ok
        (d / "meta.json").write_text(json.dumps(meta, indent=1) + "\n")
        print(d.name, meta["file"], meta["line"], "SURVIVES" if ok else "killed by the crate's tests", flush=True)
    sh(f"git worktree remove --force {wt}", cwd=REPO)


def run(outdir, w, nw):
    wt = worktree(f"r{w}")
    ds = [d for d in sorted(Path(outdir).glob("m*")) if json.loads((d / "meta.json").read_text()).get("survives")]
    step = int(os.environ.get("MUT_STEP", "1"))       # evaluate every step-th survivor
    nprops = int(os.environ.get("MUT_PROPS", "9"))     # at most this many checks per survivor
    ds = ds[::step]
    env = dict(os.environ, VERIF_REPO=str(wt))
    for k, d in enumerate(ds):
        if k % nw != w:
            continue
        meta = json.loads((d / "meta.json").read_text())
        if "checks" in meta:
            continue
        sh("git checkout -- .", cwd=wt)
        apply_mutant(wt, meta)
        res = {}
        for p in meta["props"][:nprops]:
            pr = subprocess.run(["python3", "check.py", p, "--tier", "quick"], cwd=VERIF, env=env, capture_output=True, text=True)
            first = next((l for l in pr.stdout.splitlines() if l.startswith(("VIOLATION", "TOOL"))), "")
            res[p] = {"exit": pr.returncode, "line": first[:200]}
            if pr.returncode == 1:
                break          # detected: no need to run the remaining checks
        meta["checks"] = res
        meta["detected"] = any(r["exit"] == 1 for r in res.values())
        (d / "meta.json").write_text(json.dumps(meta, indent=1) + "\n")
        print(d.name, meta["file"], meta["line"], repr(meta["new"].strip())[:70], "DETECTED" if meta["detected"] else "not detected",
              {p: r["exit"] for p, r in res.items()}, flush=True)
    sh(f"git worktree remove --force {wt}", cwd=REPO)


if __name__ == "__main__":
    if sys.argv[1] == "gen":
        gen(sys.argv[2], int(sys.argv[3]) if len(sys.argv) > 3 else 25)
    elif sys.argv[1] == "filter":
        filt(sys.argv[2], int(sys.argv[3]), int(sys.argv[4]))
    elif sys.argv[1] == "run":
        run(sys.argv[2], int(sys.argv[3]), int(sys.argv[4]))
