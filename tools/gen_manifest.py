#!/usr/bin/env python3
"""Generates /verif/MANIFEST.json from the table below (single source of truth;
the file is validated against /root/.vp/MANIFEST.schema.json when available)."""
import json
import subprocess
import sys
from pathlib import Path

VERIF = Path(__file__).resolve().parent.parent
sys.path.insert(0, str(VERIF))
sys.dont_write_bytecode = True
from lib import props  # noqa: E402

ALL = ["C%02d" % i for i in range(1, 21)]

# per property: (category, level text, level note, technique, design ref)
TABLE = {
    "C01": ("model_checking",
            "Tier-B TLA+ models of Myers / LCS / Patience are explored exhaustively by TLC (every input pair within the bound) "
            "and checked against the Tier-A hook-protocol specification Script.tla; every behaviour of the models is replayed "
            "into the real algorithms, and hook-event traces recorded from the real code (exhaustive small pairs, sub-ranges with "
            "a panicking window lookup, seeded random families) are validated event by event by TLC against Script.tla. "
            "The verdict comes only from rejected real traces.",
            "TLC, the JSON trace recorder of the harness, and the bound of the explored input space; beyond the exhaustive "
            "bound the assurance is that of seeded generation with an exact acceptor.",
            "TLA+ trace validation (TLC) of recorded hook streams against Script.tla + TLC model checking of Tier-B algorithm models",
            "DESIGN.md 5/C01"),
}


def main():
    hooks_commits = subprocess.run(["git", "-C", "/repo", "log", "--format=%h %s"], capture_output=True, text=True).stdout
    hook_commits = [l.split()[0] for l in hooks_commits.splitlines() if "verif hooks" in l]
    checks = []
    na = []
    for pid in ALL:
        if pid in props.PROPS and pid in TABLE:
            cat, text, note, tech, ref = TABLE[pid]
            checks.append({
                "property_id": pid,
                "quick_cmd": f"python3 check.py {pid} --tier quick",
                "thorough_cmd": f"python3 check.py {pid} --tier thorough",
                "evidence_file": f"/verif/evidence/{pid}.json",
                "replay_cmd_template": f"python3 check.py {pid} --replay {{path}}",
                "engine": "tla-trace-validation",
                "level_claimed": {"category": cat, "text": text, "design_ref": ref},
                "level_note": note,
                "technique": tech,
            })
        else:
            na.append({"property_id": pid,
                       "reason": "check under construction in this build step (specification and harness family not yet wired); "
                                 "see DESIGN.md section 9 for the construction order"})
    m = {
        "version": 1,
        "setup_cmd": "python3 check.py --setup",
        "hooks": {
            "guard": "similar_verif",
            "enable": "rustc cfg flag: RUSTFLAGS --cfg similar_verif, set by /verif/harness/.cargo/config.toml for the harness build "
                      "(path dependency on /repo); with the flag off none of the hook code is compiled",
            "baseline_off_cmd": "cd /repo && cargo test --workspace --no-fail-fast --offline",
            "source_commits": hook_commits,
            "add_only": True,
        },
        "engines": [
            {"name": "tla-trace-validation", "path": "/verif/check.py",
             "serves_properties": [c["property_id"] for c in checks],
             "kind_free_text": "TLA+ specifications (spec/abstract = what any correct implementation may do, spec/impl = "
                               "implementation-shaped models) checked with TLC; Rust harness (harness/) records traces from the "
                               "real code and replays TLC-generated behaviours; TLC validates the recorded traces against the "
                               "abstract specifications"},
        ],
        "checks": checks,
        "not_applicable": na,
        "notes": "Exit codes: 0 held, 1 VIOLATION, 2 tool error. Known findings are listed in /verif/known_findings.json.",
    }
    p = VERIF / "MANIFEST.json"
    p.write_text(json.dumps(m, indent=1) + "\n")
    try:
        import jsonschema
        jsonschema.validate(m, json.load(open("/root/.vp/MANIFEST.schema.json")))
        print("MANIFEST.json valid;", len(checks), "checks,", len(na), "not_applicable")
    except ImportError:
        print("MANIFEST.json written (jsonschema not available);", len(checks), "checks")


if __name__ == "__main__":
    main()
