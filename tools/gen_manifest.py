#!/usr/bin/env python3
"""Generates /verif/MANIFEST.json from the table below (single source of truth;
the file is validated against /root/.vp/MANIFEST.schema.json when available)."""
import json
import subprocess
import sys
from pathlib import Path

VERIF = Path(__file__).resolve().parent.parent
sys.path.insert(0, str(VERIF))
sys.dont_write_bytecode = True
from lib import props  # noqa: E402

ALL = ["C%02d" % i for i in range(1, 21)]

# per property: (category, level text, level note, technique, design ref)
TB = ("TLC (tla2tools 1.8.0), the ndjson trace recorder of the harness and std; bounded input spaces: within the exhaustive "
      "bound every case is covered, beyond it the assurance is that of seeded generation judged by an exact TLA+ acceptor.")

TABLE = {
    "C01": ("model_checking",
            "Hook-event traces recorded from the real algorithms (exhaustive small pairs, sub-ranges under a lookup that panics "
            "outside the range, seeded random families) are validated event by event by TLC against the Tier-A hook-protocol "
            "specification Script.tla (cursor, range, element-wise equality, carried indices within their change run, "
            "reconstruction, sub-range = shifted slice run). Tier-B TLA+ models of the algorithms are explored exhaustively by TLC "
            "against the same specification and their behaviours are replayed into the real code. The verdict comes only from "
            "rejected real traces.", TB,
            "TLA+ trace validation (TLC) of recorded hook streams against Script.tla; TLC model checking of Tier-B algorithm models",
            "DESIGN.md 5/C01"),
    "C02": ("model_checking",
            "Every capture_diff*/TextDiff::ops call of the drivers (all algorithms, entry points, sub-ranges, deadline none / never / "
            "every expiry index under the virtual clock) is recorded and judged by TLC with the Tier-A predicates Ops!ValidOps, "
            "ApplyOk, identical-input and ratio clauses; the Tier-B Pipeline/Compact model is explored by TLC over every valid "
            "script with ValidAlways after every cleanup arm.", TB,
            "TLA+ trace validation (TLC) of recorded op lists against Ops.tla; TLC model checking of the Compact/Pipeline model",
            "DESIGN.md 5/C02"),
    "C03": ("model_checking",
            "Cost and matched totals of raw callback streams and captured ops of Myers and LCS are compared by TLC with "
            "N+M-2*LcsLen, LcsLen being an independent fold written in TLA+ (Oracles.tla); the ratio is checked against 2L/(N+M) in "
            "integer arithmetic. Tier-B Myers/LCS models carry the Minimal invariant.", TB,
            "TLA+ trace validation (TLC) with an independent LCS oracle in TLA+; TLC model checking of Myers/LCS models",
            "DESIGN.md 5/C03"),
    "C09": ("model_checking",
            "Captured op lists (all algorithms, sub-ranges, every expiry index) and the outputs of Compact+Replace on arbitrary valid "
            "scripts are judged by TLC with Ops!NormalForm; the Compact model carries the Latest / no-empty invariants over every "
            "valid input script.", TB,
            "TLA+ trace validation (TLC) against Ops!NormalForm; TLC model checking of the Compact model",
            "DESIGN.md 5/C09"),
    "C11": ("model_checking",
            "Captured op lists are judged by TLC with Ops!ExactPositions; every case is executed as shipped and with the "
            "cfg(similar_verif) swap-repair switch on, so that a rejection is attributed mechanically to known finding KF-1 (swap "
            "arms of compact.rs) or reported as a violation. The Compact model shows ExactAtEnd \\/ swapped invariant, i.e. the swap "
            "arms are the only cause within the bound.", TB,
            "TLA+ trace validation (TLC) against Ops!ExactPositions with call-site attribution; TLC model checking of Compact (SwapRepair FALSE/TRUE)",
            "DESIGN.md 5/C11"),
    "C15": ("model_checking",
            "For Patience without deadline, TLC computes K = LCS length of the two lists of common-unique items (Oracles!AnchorOptimum) "
            "and the number of common-unique items covered by Equal segments, for raw streams and captured ops; covered >= K.", TB,
            "TLA+ trace validation (TLC) with an anchor-optimum oracle in TLA+; TLC model checking of the Patience model",
            "DESIGN.md 5/C15"),
}


def main():
    hooks_commits = subprocess.run(["git", "-C", "/repo", "log", "--format=%h %s"], capture_output=True, text=True).stdout
    hook_commits = [l.split()[0] for l in hooks_commits.splitlines() if "verif hooks" in l]
    checks = []
    na = []
    for pid in ALL:
        if pid in props.PROPS and pid in TABLE:
            cat, text, note, tech, ref = TABLE[pid]
            checks.append({
                "property_id": pid,
                "quick_cmd": f"python3 check.py {pid} --tier quick",
                "thorough_cmd": f"python3 check.py {pid} --tier thorough",
                "evidence_file": f"/verif/evidence/{pid}.json",
                "replay_cmd_template": f"python3 check.py {pid} --replay {{path}}",
                "engine": "tla-trace-validation",
                "level_claimed": {"category": cat, "text": text, "design_ref": ref},
                "level_note": note,
                "technique": tech,
            })
        else:
            na.append({"property_id": pid,
                       "reason": "check under construction in this build step (specification and harness family not yet wired); "
                                 "see DESIGN.md section 9 for the construction order"})
    m = {
        "version": 1,
        "setup_cmd": "python3 check.py --setup",
        "hooks": {
            "guard": "similar_verif",
            "enable": "rustc cfg flag: RUSTFLAGS --cfg similar_verif, set by /verif/harness/.cargo/config.toml for the harness build "
                      "(path dependency on /repo); with the flag off none of the hook code is compiled",
            "baseline_off_cmd": "cd /repo && cargo test --workspace --no-fail-fast --offline",
            "source_commits": hook_commits,
            "add_only": True,
        },
        "engines": [
            {"name": "tla-trace-validation", "path": "/verif/check.py",
             "serves_properties": [c["property_id"] for c in checks],
             "kind_free_text": "TLA+ specifications (spec/abstract = what any correct implementation may do, spec/impl = "
                               "implementation-shaped models) checked with TLC; Rust harness (harness/) records traces from the "
                               "real code and replays TLC-generated behaviours; TLC validates the recorded traces against the "
                               "abstract specifications"},
        ],
        "checks": checks,
        "not_applicable": na,
        "notes": "Exit codes: 0 held, 1 VIOLATION, 2 tool error. Known findings are listed in /verif/known_findings.json.",
    }
    p = VERIF / "MANIFEST.json"
    p.write_text(json.dumps(m, indent=1) + "\n")
    try:
        import jsonschema
        jsonschema.validate(m, json.load(open("/root/.vp/MANIFEST.schema.json")))
        print("MANIFEST.json valid;", len(checks), "checks,", len(na), "not_applicable")
    except ImportError:
        print("MANIFEST.json written (jsonschema not available);", len(checks), "checks")


if __name__ == "__main__":
    main()
