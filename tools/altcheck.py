#!/usr/bin/env python3
"""Development aid: run quick checks against another checkout of mitsuhiko/similar (a scratch
worktree carrying a seeded or benign change) without touching /repo:
   altcheck.py <worktree> [props...]        (default: all 20)
Prints one summary line per property and writes work/alt_<hash>/summary.json."""
import json
import os
import subprocess
import sys
import time
from pathlib import Path

VERIF = Path(__file__).resolve().parent.parent


def main():
    wt = sys.argv[1]
    props = sys.argv[2:] or ["C%02d" % i for i in range(1, 21)]
    env = dict(os.environ, VERIF_REPO=wt)
    res = {}
    for p in props:
        t0 = time.time()
        r = subprocess.run(["python3", "check.py", p, "--tier", "quick"], cwd=VERIF, env=env, capture_output=True, text=True)
        lines = [l for l in r.stdout.splitlines() if l.startswith(("VIOLATION", "OK ", "INFO", "KNOWN"))]
        viol = [l for l in lines if l.startswith("VIOLATION")]
        info = [l for l in lines if l.startswith("INFO")]
        res[p] = {"exit": r.returncode, "wall": round(time.time() - t0, 1), "violations": viol[:3], "info": info[:3],
                  "err": r.stderr[-300:] if r.returncode == 2 else ""}
        print(f"{Path(wt).name} {p} exit={r.returncode} {res[p]['wall']}s " +
              (viol[0][:160] if viol else (info[0][:160] if info else "")), flush=True)
    import hashlib
    tag = hashlib.sha1(wt.encode()).hexdigest()[:8]
    out = VERIF / "work" / ("alt_" + tag) / "summary.json"
    out.parent.mkdir(parents=True, exist_ok=True)
    out.write_text(json.dumps({"worktree": wt, "results": res}, indent=1))


if __name__ == "__main__":
    main()
